"""Unit lemma U1 (DESIGN 6 C04/C05): the real _filter_points_to_get_convex_hull + _interpolate_curve on SYMBOLIC curve points.

Precondition (what _calculate_tradeoff_points delivers, checked by the pipeline runs): K points in [0,1]^2, sorted
lexicographically, first x = 0, last x = 1.  Grid [0, t, 1] with t symbolic in (0,1].  U1 over-approximates the curves
fit() can produce, so a U1 counter-example is reported as unit-level (confirmed at unit level on the real functions with
floats) and does not by itself fail the check; violations are reported by the pipeline exploration."""
import numpy as np
import pandas as pd
import z3

from symx import core
from symx.core import SReal, real, term


def explore_hull(acc, K, deadline, want, sig_prefix):
    from fairlearn.postprocessing._tradeoff_curve_utilities import _filter_points_to_get_convex_hull, _interpolate_curve

    def run():
        xs = [real(f"x{i}", 0, 1) for i in range(K)]
        ys = [real(f"y{i}", 0, 1) for i in range(K)]
        t = real("t", 0, 1, lo_strict=True)
        c = core.cur()
        c.assume(xs[0].e == 0)
        c.assume(xs[-1].e == 1)
        for i in range(K - 1):
            c.assume(z3.Or(xs[i].e < xs[i + 1].e, z3.And(xs[i].e == xs[i + 1].e, ys[i].e <= ys[i + 1].e)))
        pts = pd.DataFrame({"x": np.array(xs, dtype=object), "y": np.array(ys, dtype=object), "operation": [f"op{i}" for i in range(K)]})
        try:
            hull = _filter_points_to_get_convex_hull(pts)
            ic = _interpolate_curve(hull, "x", "y", "operation", np.array([0, t, 1], dtype=object))
        except Exception as e:
            return e
        return xs, ys, t, ic

    def on_ok(ctx, out):
        if isinstance(out, Exception):
            acc.exception_cex(ctx, out, signature=f"unit:{sig_prefix}:exception", extra={"K": K})
            return
        xs, ys, t, ic = out
        acc.reach(ctx)
        row = ic.iloc[1]
        ex = {"K": K}
        if not (core.is_sym(row.p0) or isinstance(row.p0, (int, float))) or core.is_nan(row.p0) or core.is_nan(row.p1):
            acc.check(ctx, "interpolation_weights_defined", z3.BoolVal(False), signature=f"unit:{sig_prefix}:nan", extra=ex)
            return
        i0, i1 = int(str(row.operation0)[2:]), int(str(row.operation1)[2:])
        p0, p1 = term(row.p0), term(row.p1)
        items = []
        if "parity" in want:
            items.append(("interpolation_weights_are_a_distribution", z3.And(p0 >= 0, p0 <= 1, p0 + p1 == 1), f"unit:{sig_prefix}:weights", ex))
            items.append(("interpolated_x_hits_the_grid_value_exactly", p0 * xs[i0].e + p1 * xs[i1].e == t.e, f"unit:{sig_prefix}:parity", ex))
            items.append(("interpolated_y_is_the_same_mixture", term(row.y) == p0 * ys[i0].e + p1 * ys[i1].e, f"unit:{sig_prefix}:y", ex))
        acc.check_all(ctx, items)
        if "envelope" in want:
            lam = z3.Real("lam")
            for a in range(K):
                for b in range(a, K):
                    f = z3.Implies(z3.And(lam >= 0, lam <= 1, lam * xs[a].e + (1 - lam) * xs[b].e == t.e), lam * ys[a].e + (1 - lam) * ys[b].e <= term(row.y))
                    acc.check(ctx, "hull_is_concave_envelope_of_input_points", f, signature=f"unit:{sig_prefix}:envelope", extra=ex)
        acc.canary(ctx, "canary_hull", p0 == 2)

    acc.explore(run, on_ok, deadline=deadline, max_paths=4000)


def replay_unit(cex):
    """unit-level confirmation on the real functions with floats (not a VIOLATION by itself: see module docstring)"""
    from fairlearn.postprocessing._tradeoff_curve_utilities import _filter_points_to_get_convex_hull, _interpolate_curve
    from symx.runner import F

    mdl, K = cex["model"], cex["extra"]["K"]
    xs = [float(F(mdl.get(f"x{i}", "0"))) for i in range(K)]
    ys = [float(F(mdl.get(f"y{i}", "0"))) for i in range(K)]
    t = float(F(mdl.get("t", "1")))
    pts = pd.DataFrame({"x": xs, "y": ys, "operation": [f"op{i}" for i in range(K)]})
    try:
        hull = _filter_points_to_get_convex_hull(pts)
        ic = _interpolate_curve(hull, "x", "y", "operation", np.array([0, t, 1]))
    except Exception as e:
        return {"reproduced": False, "unit_level": True, "detail": f"unit level: raised {type(e).__name__}: {e} on points {list(zip(xs, ys))}, t={t}"}
    row = ic.iloc[1]
    i0, i1 = int(str(row.operation0)[2:]), int(str(row.operation1)[2:])
    bad = []
    if not (0 <= row.p0 <= 1) or abs(row.p0 + row.p1 - 1) > 1e-9 or abs(row.p0 * xs[i0] + row.p1 * xs[i1] - t) > 1e-9:
        bad.append(f"p0={row.p0} p1={row.p1} mix x={row.p0 * xs[i0] + row.p1 * xs[i1]} t={t}")
    for a in range(K):
        for b in range(K):
            if xs[a] != xs[b]:
                lam = (t - xs[b]) / (xs[a] - xs[b])
                if 0 <= lam <= 1 and lam * ys[a] + (1 - lam) * ys[b] > row.y + 1e-9:
                    bad.append(f"points {a},{b} give y {lam * ys[a] + (1 - lam) * ys[b]} above interpolated {row.y}")
    return {"reproduced": False, "unit_level": True, "unit_confirmed": bool(bad),
            "detail": ("UNIT-LEVEL counter-example (not confirmed through fit): " + "; ".join(bad[:3]) if bad else "unit-level model did not reproduce with floats") + f" | points {list(zip(xs, ys))} t={t}"}
