"""C09 - GridSearch trains a faithful best response per grid point and picks the argmin."""
import itertools
import random

import numpy as np
import pandas as pd
import z3
from sklearn.base import BaseEstimator, ClassifierMixin

from harness import moments_common as mc
from symx import core, oracle as O
from symx.core import SReal, real, term
from symx.runner import F, JobAcc

PROPERTY = "C09"
BUDGET = {"quick": 170, "thorough": 1700}
META = {
    "explanation": "two harnesses. H-grid: the real _GridGenerator on the pos/neg bases produced by the real moments' load_data, grid_limit a symbolic real "
                   ">0, grid_size enumerated 2..60: exactly grid_size columns, pairwise distinct, entries >=0, column L1 norm <= grid_limit, pos/neg parts "
                   "never both non-zero. H-fit: the real GridSearch.fit/predict/predict_proba with a user grid= of symbolic multipliers lambda>=0 (1-2 "
                   "columns), symbolic constraint_weight in [0,1], an exact cost-sensitive learner over all labelings of the <=3 distinct feature values "
                   "(the property's premise): per column the trained predictor minimises err+lambda.gamma over the class (oracle from the definition), "
                   "objectives_/gammas_ equal the oracle values of the predictor's real predictions, best_idx_ is the first minimiser of "
                   "(1-cw)*objective+cw*max(gamma), predict/predict_proba delegate to it, lambda_vecs_ equals the grid.",
    "tier_bounds": {"quick": "H-grid: grid_size 2..60 (all) x bases from 6 moment kinds x datasets with 2..3 groups (incl. one with an absent (event,group) pair); "
                             "H-fit: n<=4 rows, 2 groups, <=3 feature values, 5 parity moments, 1 symbolic grid column (+ a seeded concrete second column)",
                    "thorough": "H-grid adds 4 groups; H-fit n<=5, 3 groups, 2 symbolic columns"},
    "trusted_base": ["z3", "symx", "exact-learner stub (the property's premise)", "pandas as executed"],
    "stubs": ["_grid_generator.float pass-through for proxies", "exact cost-sensitive learner (user estimator)", "DummyClassifier -> constant learner stub"],
    "assumptions": ["grid_limit > 0", "lambda >= 0", "constraint_weight in [0,1]", "exact reals"],
    "outside": ["grid_offset", "learners that are not exact", "n beyond the bound"],
}
MANIFEST = {
    "level_text": "Bounded symbolic verification: the grid obligations are proved for ALL grid_limit>0 per (grid_size, basis); the fit obligations for ALL "
                  "multipliers and constraint weights per enumerated tiny dataset, each path being a cell of lambda-space by best response.",
    "level_note": "Trusted: z3, symx, exact-learner stub. grid_size / datasets enumerated; known finding D7 (absent (event,group) pair -> duplicate grid vectors) is listed in known_findings.json.",
    "design_ref": "DESIGN.md section 6 C09",
}


class ExactLearner(ClassifierMixin, BaseEstimator):
    """exact cost-sensitive learner over all labelings of the distinct feature values (first minimiser on ties)"""

    def fit(self, X, y, sample_weight=None):
        f = [int(v) for v in np.asarray(X)[:, 0]]
        vals = sorted(set(f))
        y = list(y)
        w = list(np.asarray(sample_weight, dtype=object)) if sample_weight is not None else [1] * len(y)
        best, bestc = None, None
        for lab in itertools.product([0, 1], repeat=len(vals)):
            m = dict(zip(vals, lab))
            c = 0
            for i in range(len(f)):
                if m[f[i]] != y[i]:
                    c = c + w[i]
            if best is None or c < bestc:
                best, bestc = m, c
        self.map_ = best
        return self

    def predict(self, X):
        return np.array([self.map_[int(v)] for v in np.asarray(X)[:, 0]])

    def predict_proba(self, X):
        p = self.predict(X)
        return np.stack([1 - p, p], axis=1)


class NestedExactLearner(ClassifierMixin, BaseEstimator):
    """a composite estimator in the style of sklearn's Pipeline: the sub-estimator is a constructor parameter and is fitted IN PLACE (no clone inside
    fit - cloning/copying the whole composite is the caller's job).  Two copies of the composite must not share the sub-estimator object."""

    def __init__(self, step=None):
        self.step = step

    def fit(self, X, y, sample_weight=None):
        self.step.fit(X, y, sample_weight=sample_weight)
        return self

    @property
    def map_(self):
        return self.step.map_

    def predict(self, X):
        return self.step.predict(X)

    def predict_proba(self, X):
        return self.step.predict_proba(X)


def _learner(job):
    """every other job uses the composite learner"""
    return NestedExactLearner(step=ExactLearner()) if sum(job["id"].encode()) % 2 else ExactLearner()


class ConstLearner(ClassifierMixin, BaseEstimator):
    def __init__(self, strategy="constant", constant=0):
        self.strategy = strategy
        self.constant = constant

    def fit(self, X, y, sample_weight=None):
        f = [int(v) for v in np.asarray(X)[:, 0]]
        self.map_ = {v: int(self.constant) for v in set(f)}
        return self

    def predict(self, X):
        return np.array([int(self.constant)] * len(X))

    def predict_proba(self, X):
        p = self.predict(X)
        return np.stack([1 - p, p], axis=1)


_orig = {}


def setup():
    import fairlearn.reductions._grid_search._grid_generator as gg
    import fairlearn.reductions._grid_search.grid_search as gs

    import logging

    logging.getLogger("fairlearn.reductions._grid_search._grid_generator").setLevel(logging.ERROR)
    gg.float = lambda x: x if core.is_sym(x) else float(x)
    gs.DummyClassifier = ConstLearner


GRID_DATASETS = [  # (labels, groups) ; complete = every (event, group) pair of EqualizedOdds occurs
    ("2g", [1, 0, 1, 0], [0, 0, 1, 1], True),
    ("3g", [1, 0, 1, 0, 1, 0], [0, 0, 1, 1, 2, 2], True),
    ("2g-absent", [0, 0, 1, 0], [0, 0, 1, 1], False),  # group 0 (not the last group) has no positive row
    ("3g-absent", [0, 0, 1, 0, 1, 0], [0, 0, 1, 1, 2, 2], False),
]
GRID_DATASETS_T = GRID_DATASETS + [("4g", [1, 0, 1, 0, 1, 0, 1, 0], [0, 0, 1, 1, 2, 2, 3, 3], True)]
GRID_MOMENTS = mc.PARITY + ["BoundedGroupLoss"]


def jobs(tier, seed):
    rnd = random.Random(seed)
    js = []
    for dn, y, g, complete in (GRID_DATASETS if tier == "quick" else GRID_DATASETS_T):
        for mom in GRID_MOMENTS:
            sizes = list(range(2, 61))
            for ci in range(0, len(sizes), 20):
                js.append({"id": f"grid-{dn}-{mom}-{ci // 20}", "kind": "grid", "y": y, "groups": g, "moment": mom, "complete": complete, "sizes": sizes[ci:ci + 20]})
    nmax = 4 if tier == "quick" else 5
    for mom in mc.PARITY:
        structs = []
        for n in range(3, nmax + 1):
            for _ in range(6 if tier == "quick" else 20):
                y = [rnd.randint(0, 1) for _ in range(n)]
                g = list(rnd.choice([x for x in core.rgs(n, 2 if tier == "quick" else 3) if len(set(x)) >= 2]))
                f = [rnd.randint(0, 2) for _ in range(n)]
                structs.append((y, g, f))
        for si, (y, g, f) in enumerate(structs):
            js.append({"id": f"fit-{mom}-{si}", "kind": "fit", "moment": mom, "y": y, "groups": g, "feat": f, "ncols": 1 if tier == "quick" else rnd.choice([1, 2]),
                       "conc": [rnd.choice([0, 0.5, 1, 2]) for _ in range(16)]})
    return js


def _load_moment(name, y, groups):
    import fairlearn.reductions as red

    if name == "BoundedGroupLoss":
        m = red.BoundedGroupLoss(red.ZeroOneLoss(), upper_bound=0.1)
        m.load_data(pd.DataFrame({"f": list(range(len(y)))}), list(y), sensitive_features=[mc.GROUP_NAMES[g] for g in groups])
    else:
        m = mc.make_moment(name, "difference", 0.01)
        mc.load(m, y, groups, None)
    return m


def run_job(job, deadline):
    mc.set_group_order(job["id"])
    acc = JobAcc(job)
    if job["kind"] == "grid":
        _grid(acc, job, deadline)
    else:
        _fit(acc, job, deadline)
    return acc.result()


def _grid(acc, job, deadline):
    from fairlearn.reductions._grid_search._grid_generator import _GridGenerator

    y, groups, name = job["y"], job["groups"], job["moment"]
    m = _load_moment(name, y, groups)
    force = m.default_objective_lambda_vec is not None
    for gsz in job["sizes"]:
        def run(gsz=gsz):
            lim = real("limit", 0, None, lo_strict=True)
            try:
                grid = _GridGenerator(gsz, lim, m.pos_basis, m.neg_basis, m.neg_basis_present, force).grid
            except Exception as e:
                return e
            return lim, grid

        def on_ok(ctx, out, gsz=gsz):
            sigc = "complete" if job["complete"] else "absent_pair"
            ex = {"grid_size": gsz, "moment": name, "y": y, "groups": groups}
            if isinstance(out, Exception):
                acc.exception_cex(ctx, out, signature=f"grid:exception:{sigc}", extra=ex)
                return
            lim, grid = out
            acc.reach(ctx)
            cols = [[term(v) for v in grid[c]] for c in grid.columns]
            items = [("exactly_grid_size_vectors", z3.BoolVal(len(cols) == gsz), f"grid:count:{sigc}", ex)]
            items.append(("multipliers_nonnegative", z3.And([v >= 0 for c in cols for v in c]), f"grid:sign:{sigc}", ex))
            items.append(("l1_norm_at_most_grid_limit", z3.And([core.zsum(c) <= term(lim) for c in cols]), f"grid:norm:{sigc}", ex))
            distinct = [z3.Or([a != b for a, b in zip(cols[i], cols[j])]) for i in range(len(cols)) for j in range(i + 1, len(cols))]
            items.append(("vectors_pairwise_distinct", z3.And(distinct) if distinct else z3.BoolVal(True), f"grid:distinct:{name}:{sigc}", ex))
            if isinstance(grid.index, pd.MultiIndex) and "+" in grid.index.get_level_values(0):
                both = []
                for e in grid.index:
                    if e[0] == "+":
                        for ci, c in enumerate(grid.columns):
                            both.append(z3.Or(term(grid.loc[e, c]) == 0, term(grid.loc[("-",) + tuple(e[1:]), c]) == 0))
                items.append(("pos_and_neg_parts_never_both_nonzero", z3.And(both), f"grid:posneg:{sigc}", ex))
            acc.check_all(ctx, items)
            acc.canary(ctx, "canary_grid", core.zsum(cols[-1]) > term(lim))

        acc.explore(run, on_ok, deadline=deadline, max_paths=16, record_funcs=(gsz == job["sizes"][0]))


def _fit(acc, job, deadline):
    import fairlearn.reductions as red

    y, groups, feat, name = job["y"], job["groups"], job["feat"], job["moment"]
    n = len(y)
    X = pd.DataFrame({"f": feat})
    sf = [mc.GROUP_NAMES[g] for g in groups]
    ex = {"y": y, "groups": groups, "feat": feat}
    probe = mc.make_moment(name, "difference", 0.01)
    mc.load(probe, y, groups, None, X=X)
    if len(probe.index) == 0:
        acc.r["canaries"] += 1
        acc.r["canaries_fired"] += 1
        return
    mapping, problems = mc.index_map(probe, name, y, groups, None)
    vals = sorted(set(feat))
    H = [dict(zip(vals, lab)) for lab in itertools.product([0, 1], repeat=len(vals))]

    def run():
        conc = iter(job["conc"])
        cols = {}
        for c in range(job["ncols"] + 1):
            if c < job["ncols"]:
                cols[c] = pd.Series([real(f"l{c}_{j}", 0) for j in range(len(probe.index))], index=probe.index, dtype=object)
            else:
                cols[c] = pd.Series([np.float64(next(conc)) for _ in range(len(probe.index))], index=probe.index, dtype=object)
        grid = pd.DataFrame(cols)
        cw = real("cw", 0, 1)
        if n % 2:
            gs = red.GridSearch(_learner(job), constraints=mc.make_moment(name, "difference", 0.01), grid=grid, constraint_weight=0.5)
        else:  # the user grid arrives through set_params after construction
            gs = red.GridSearch(_learner(job), constraints=mc.make_moment(name, "difference", 0.01), constraint_weight=0.5)
            gs.set_params(grid=grid)
        gs.constraint_weight = cw
        gs.objective_weight = 1 - cw
        try:
            ret = gs.fit(X, list(y), sensitive_features=sf)
            pred = gs.predict(X)
            proba = gs.predict_proba(X)
        except Exception as e:
            return e
        return gs, grid, cw, ret, pred, proba

    def lagr_terms(h):  # err, gamma dict from the definition
        b = [h[feat[i]] for i in range(n)]
        err = z3.RealVal(sum(1 for i in range(n) if b[i] != y[i])) / n
        gam = mc.oracle_gamma(name, y, groups, None, b, 1)
        return err, gam

    def on_ok(ctx, out):
        if isinstance(out, Exception):
            acc.exception_cex(ctx, out, signature=f"fit:{name}:exception", extra=ex)
            return
        gs, grid, cw, ret, pred, proba = out
        acc.reach(ctx)
        sig = f"fit:{name}"
        ncol = len(grid.columns)
        ok_shape = len(gs.predictors_) == ncol and len(gs.objectives_) == ncol and list(gs.gammas_.columns) == list(grid.columns)
        acc.check(ctx, "one_predictor_objective_gamma_per_grid_column", z3.BoolVal(bool(ok_shape)), signature=sig + ":shape", extra=ex)
        if not ok_shape:
            return
        items = []
        losses = []
        for k, c in enumerate(grid.columns):
            hk = gs.predictors_[k].map_
            lam = grid[c]
            err_k, gam_k = lagr_terms(hk)
            Lk = err_k + core.zsum([term(lam[e]) * gam_k[mapping[e]] for e in probe.index])
            for h2 in H:
                e2, g2 = lagr_terms(h2)
                items.append(("predictor_is_best_response_to_its_lambda", Lk <= e2 + core.zsum([term(lam[e]) * g2[mapping[e]] for e in probe.index]), sig + ":best_response", ex))
            items.append(("recorded_objective_is_real_error", term(gs.objectives_[k]) == err_k, sig + ":objective", ex))
            items.append(("recorded_gamma_is_real_violation", z3.And([term(gs.gammas_[c][e]) == gam_k[mapping[e]] for e in probe.index]), sig + ":gamma", ex))
            items.append(("lambda_vecs_equal_grid", z3.And([O.same(gs.lambda_vecs_[c][e], lam[e]) for e in probe.index]), sig + ":lambda_vecs", ex))
            mx = z3.RealVal(0)
            gl = [gam_k[mapping[e]] for e in probe.index]
            mx = gl[0]
            for v in gl[1:]:
                mx = z3.If(v > mx, v, mx)
            losses.append((1 - term(cw)) * err_k + term(cw) * mx)
        b = gs.best_idx_
        items.append(("best_idx_minimises_tradeoff_loss", z3.And([losses[b] <= L for L in losses] + [losses[j] > losses[b] for j in range(b)]), sig + ":argmin", ex))
        want_pred = [gs.predictors_[b].map_[feat[i]] for i in range(n)]
        items.append(("predict_delegates_to_selected_model", z3.BoolVal(list(map(int, pred)) == want_pred and list(map(int, np.asarray(proba)[:, 1])) == want_pred),
                      sig + ":delegate", ex))
        items.append(("fit_returns_nothing_unexpected", z3.BoolVal(ret is None or ret is gs), sig + ":return", ex))
        acc.check_all(ctx, items)
        acc.canary(ctx, "canary_fit", term(gs.objectives_[0]) == lagr_terms(gs.predictors_[0].map_)[0] + 1)
        acc.sample({"job": job["id"], "best_idx": int(b), "maps": [p.map_ for p in gs.predictors_]})

    acc.explore(run, on_ok, deadline=deadline, max_paths=3000)


# ---- replay ------------------------------------------------------------------------------------------
def replay(cex):
    import fairlearn.reductions as red
    from fairlearn.reductions._grid_search._grid_generator import _GridGenerator

    job, mdl, ex = cex["job"], cex["model"], cex["extra"]
    mc.set_group_order(job["id"])
    f = lambda k, d="0": float(F(mdl.get(k, d)))
    if job["kind"] == "grid":
        y, groups, name, gsz = job["y"], job["groups"], job["moment"], ex["grid_size"]
        m = _load_moment(name, y, groups)
        lim = f("limit", "2")
        # through the public API: GridSearch.fit with a recording learner gives lambda_vecs_
        class Rec(ClassifierMixin, BaseEstimator):
            def fit(self, X, y, sample_weight=None):
                return self

            def predict(self, X):
                return np.zeros(len(X))

        cons = _load_moment.__wrapped__(name) if hasattr(_load_moment, "__wrapped__") else None
        if name == "BoundedGroupLoss":
            cons = red.BoundedGroupLoss(red.ZeroOneLoss(), upper_bound=0.1)
        else:
            cons = mc.make_moment(name, "difference", 0.01)
        gs = red.GridSearch(Rec(), constraints=cons, grid_size=gsz, grid_limit=lim)
        gs.fit(pd.DataFrame({"f": list(range(len(y)))}), list(y), sensitive_features=[mc.GROUP_NAMES[g] for g in groups])
        lv = gs.lambda_vecs_
        cols = [tuple(np.round(lv[c].astype(float).values, 12)) for c in lv.columns]
        bad = []
        if len(cols) != gsz:
            bad.append(f"{len(cols)} vectors for grid_size {gsz}")
        if len(set(cols)) != len(cols):
            bad.append(f"only {len(set(cols))} distinct multiplier vectors among {len(cols)}")
        if any(v < -1e-12 for c in cols for v in c):
            bad.append("negative multiplier")
        if any(sum(c) > lim + 1e-9 for c in cols):
            bad.append(f"L1 norm above grid_limit {lim}")
        sigc = "complete" if job["complete"] else "absent_pair"
        kind = "distinct" if any("distinct" in b for b in bad) else ("count" if any("vectors for" in b for b in bad) else ("sign" if any("negative" in b for b in bad) else "norm"))
        sig = f"grid:{kind}:{name}:{sigc}" if kind == "distinct" else f"grid:{kind}:{sigc}"
        return {"reproduced": bool(bad), "signature": sig, "detail": "; ".join(bad) + f" | GridSearch(grid_size={gsz}, grid_limit={lim}, {name}) on y={y} groups={groups}"}
    # fit
    y, groups, feat, name = job["y"], job["groups"], job["feat"], job["moment"]
    n = len(y)
    X = pd.DataFrame({"f": feat})
    sf = [mc.GROUP_NAMES[g] for g in groups]
    import fairlearn.reductions._grid_search.grid_search as gsm

    gsm.DummyClassifier = ConstLearner
    probe = mc.make_moment(name, "difference", 0.01)
    mc.load(probe, y, groups, None, X=X)
    mapping, _ = mc.index_map(probe, name, y, groups, None)
    conc = iter(job["conc"])
    cols = {}
    for c in range(job["ncols"] + 1):
        if c < job["ncols"]:
            cols[c] = pd.Series([f(f"l{c}_{j}") for j in range(len(probe.index))], index=probe.index)
        else:
            cols[c] = pd.Series([float(next(conc)) for _ in range(len(probe.index))], index=probe.index)
    grid = pd.DataFrame(cols)
    cw = f("cw", "0.5")
    gs = red.GridSearch(_learner(job), constraints=mc.make_moment(name, "difference", 0.01), grid=grid, constraint_weight=cw)
    try:
        gs.fit(X, list(y), sensitive_features=sf)
        pred = gs.predict(X)
    except Exception as e:
        return {"reproduced": True, "signature": f"fit:{name}:exception", "detail": f"raised {type(e).__name__}: {e}"}
    vals = sorted(set(feat))
    H = [dict(zip(vals, lab)) for lab in itertools.product([0, 1], repeat=len(vals))]

    def lag(h, lam):
        b = np.array([h[feat[i]] for i in range(n)], dtype=float)
        err = float(np.mean(b != np.array(y)))
        o = red.ErrorRate()
        mc.load(o, y, groups, None, X=X)
        gam = probe.gamma(lambda X: b)
        return err, gam, err + float((lam * gam).sum())

    bad, losses = [], []
    for k, c in enumerate(grid.columns):
        hk = gs.predictors_[k].map_
        err, gam, L = lag(hk, grid[c])
        best = min(lag(h2, grid[c])[2] for h2 in H)
        if L > best + 1e-9:
            bad.append(f"column {c}: predictor {hk} has err+lambda.gamma={L:.6g}, class minimum {best:.6g}")
        if abs(float(gs.objectives_[k]) - err) > 1e-9:
            bad.append(f"objectives_[{k}]={gs.objectives_[k]} but real error {err}")
        if float(np.abs(gs.gammas_[c].astype(float) - gam).max()) > 1e-9:
            bad.append(f"gammas_[{c}] differs from the predictor's real violations")
        losses.append((1 - cw) * err + cw * float(gam.max()))
    if losses[gs.best_idx_] > min(losses) + 1e-9:
        bad.append(f"best_idx_={gs.best_idx_} but losses {losses}")
    want = [gs.predictors_[gs.best_idx_].map_[feat[i]] for i in range(n)]
    if list(map(int, pred)) != want:
        bad.append("predict does not delegate to predictors_[best_idx_]")
    return {"reproduced": bool(bad), "detail": "; ".join(bad)[:700] + f" | {ex} grid={grid.to_dict()} cw={cw}"}
