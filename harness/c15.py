"""C15 - CorrelationRemover output is uncorrelated with every sensitive column.

Real code executed symbolically: CorrelationRemover.fit / transform / _split_X / _create_lookup /
_check_sensitive_features_in_X.  Environment stubs: validate_data (pass-through on proxy arrays, real
function on a float shadow for its side effects) and numpy.linalg.lstsq (contract: any solution of the
normal equations of the matrices the code actually passed)."""
import fractions
import itertools
import random

import numpy as np
import pandas as pd
import z3

from symx import core
from symx.core import SReal, real, term
from symx.runner import F, JobAcc

PROPERTY = "C15"
BUDGET = {"quick": 150, "thorough": 1500}
META = {
    "explanation": "bounded symbolic execution of the real CorrelationRemover.fit/transform on a matrix of free reals "
                   "(z3 Real terms inside object-dtype numpy arrays), lstsq replaced by its contract (fresh beta + normal "
                   "equations). Obligations decided by z3 (NRA; plus a linearised LRA stage where the sensitive block is "
                   "drawn from a seeded rational pool): zero sample covariance at alpha=1, output = alpha*residual+(1-alpha)*orig "
                   "with per-column-centred sensitive block, transform(X') = same affine map, column order/dropping.",
    "tier_bounds": {
        "quick": "n in 2..4 rows, s in 1..3 sensitive columns, m in 1..2 other columns, ids by position and by name, sensitive "
                 "columns first/last/interleaved; full-symbolic queries capped at 20 s each, linearised stage 3 seeded pools per shape",
        "thorough": "n in 2..5, s in 1..4, m in 1..3; full-symbolic cap 300 s; 10 seeded pools per shape (incl. collinear/constant columns)",
    },
    "trusted_base": ["z3 5.1 (NRA/LRA)", "CPython + numpy/pandas object-dtype dispatch as executed", "symx proxies",
                     "lstsq contract stub (validated against numpy.linalg.lstsq each run)", "validate_data pass-through"],
    "stubs": ["fairlearn.preprocessing._correlation_remover.validate_data -> pass-through for proxy arrays",
              "numpy.linalg.lstsq -> fresh symbolic beta constrained by A^T(A beta - B) = 0"],
    "assumptions": ["exact real arithmetic (IEEE rounding outside the claim)",
                    "lstsq returns a least-squares solution (normal equations); nothing else is assumed about it",
                    "alpha in [0,1]"],
    "outside": ["n > 5 rows, > 4 sensitive columns", "float rounding", "1-d inputs",
                "machine dtypes (int*, uint8, bool, float32): arrays of these types cannot hold solver terms; they are covered by a CONCRETE exhaustive sweep of all "
                "{0,1,2}-valued n x 2 matrices (n = 2, 3) and {0,1}-valued 3 x 3 matrices per dtype (job 'dtypes'), which is enumeration, not a solver verdict"],
}


# ---- stubs --------------------------------------------------------------------------------
def _has_sym(a):
    try:
        arr = np.asarray(a, dtype=object)
    except Exception:
        return False
    return any(core.is_sym(v) for v in arr.ravel())


_orig = {}
_extra = []  # contract constraints produced by lstsq on the current path


def setup():
    import fairlearn.preprocessing._correlation_remover as crm

    _orig["validate_data"] = crm.validate_data
    _orig["lstsq"] = np.linalg.lstsq

    def validate_data(est, X="no_validation", **kw):
        if not _has_sym(X):
            return _orig["validate_data"](est, X, **kw)
        vals = X.values if isinstance(X, pd.DataFrame) else np.asarray(X, dtype=object)
        shadow = np.zeros(vals.shape, dtype=float)
        if isinstance(X, pd.DataFrame):
            shadow = pd.DataFrame(shadow, columns=X.columns)
        _orig["validate_data"](est, shadow, **kw)  # real shape checks / n_features_in_ side effects
        return np.asarray(vals, dtype=object)

    def lstsq(A, B, rcond=None):
        if not (_has_sym(A) or _has_sym(B)):
            return _orig["lstsq"](A, B, rcond=rcond)
        A = np.asarray(A, dtype=object)
        B = np.asarray(B, dtype=object)
        c = core.cur()
        p, q = A.shape[1], B.shape[1]
        beta = np.array([[SReal(c.fresh(f"beta_{i}_{j}")) for j in range(q)] for i in range(p)], dtype=object).reshape(p, q)
        if p and q:
            NE = A.T.dot(A.dot(beta) - B)
            for v in NE.ravel():
                c.assume(term(v) == 0)
        return beta, None, None, None

    crm.validate_data = validate_data
    np.linalg.lstsq = lstsq


def prechecks():
    """The lstsq contract holds for the real lstsq on concrete inputs (incl. rank-deficient ones)."""
    rng = np.random.default_rng(7)
    items = []
    for k in range(6):
        A = rng.integers(-3, 4, size=(5, 3)).astype(float)
        if k % 2:
            A[:, 2] = A[:, 0] * 2  # collinear
        B = rng.normal(size=(5, 2))
        beta = _orig.get("lstsq", np.linalg.lstsq)(A, B, rcond=None)[0]
        ok = bool(np.abs(A.T @ (A @ beta - B)).max() < 1e-9)
        items.append({"stub": "lstsq", "case": k, "ok": ok})
    return {"ok": all(i["ok"] for i in items), "items": items}


# ---- jobs ---------------------------------------------------------------------------------
def _layouts(s, m):
    tot = s + m
    out = [("first", list(range(s))), ("last", list(range(m, tot)))]
    if s >= 1 and m >= 1 and tot >= 3:
        inter = list(range(0, tot, 2))[:s]
        if len(inter) == s and inter not in (out[0][1], out[1][1]):
            out.append(("inter", inter))
        rev = list(reversed(range(s)))
        if s >= 2:
            out.append(("firstrev", rev))
    return out


def jobs(tier, seed):
    rnd = random.Random(seed)
    js = []
    if tier == "quick":
        shapes = [(n, s, m) for n in (2, 3, 4) for s in (1, 2, 3) for m in (1, 2) if not (n == 4 and s == 3 and m == 2)]
        pools, cap = 3, 10000
    else:
        shapes = [(n, s, m) for n in (2, 3, 4, 5) for s in (1, 2, 3, 4) for m in (1, 2, 3)]
        pools, cap = 10, 300000
    for (n, s, m) in shapes:
        for lname, sens in _layouts(s, m):
            for ids in ("pos", "name"):
                if ids == "name" and lname not in ("first", "inter"):
                    continue
                base = {"n": n, "s": s, "m": m, "sens": sens, "layout": lname, "ids": ids, "cap_ms": cap}
                if n * (s + m) <= (12 if tier == "quick" else 20):
                    js.append(dict(base, id=f"full-n{n}s{s}m{m}-{lname}-{ids}", mode="full"))
                if ids == "pos" or lname == "first":
                    for k in range(pools if lname == "first" else 1):
                        S = [[rnd.randint(-2, 3) for _ in range(s)] for _ in range(n)]
                        if k == 1 and s >= 2:  # collinear
                            for row in S:
                                row[1] = 2 * row[0]
                        if k == 2:  # a constant column
                            for row in S:
                                row[-1] = 1
                        js.append(dict(base, id=f"lin-n{n}s{s}m{m}-{lname}-{ids}-{k}", mode="lin", S=S))
    # DataFrames whose column labels are integers that differ from the column positions (ids are labels, not positions)
    for n in (2, 3):
        for labels, ids in (([1, 2, 3], [1]), ([2, 0, 1], [0]), ([5, 6, 7], [7]), ([1, 2, 3], [3, 1])):
            js.append({"id": f"intlabels-n{n}-{''.join(map(str, labels))}-{''.join(map(str, ids))}", "mode": "intlabels", "n": n, "labels": labels, "idlabels": ids, "cap_ms": cap,
                       "s": len(ids), "m": 3 - len(ids), "sens": [labels.index(i) for i in ids], "ids": "intlabel", "layout": "intlabels"})
    # histories: an already fitted instance is fitted again on data with another column layout (ids by name)
    for n in (2, 3):
        for (c1, c2) in ((["s", "a", "b"], ["a", "b", "s"]), (["a", "s", "b"], ["s", "b", "a"]), (["s", "t", "a"], ["a", "t", "s"])):
            js.append({"id": f"refit-n{n}-{''.join(c1)}-{''.join(c2)}", "mode": "refit", "n": n, "cols1": c1, "cols2": c2, "cap_ms": cap, "s": 1, "m": 2, "sens": [0], "ids": "name",
                       "layout": "refit"})
    # machine dtypes (integers, narrow floats, bool) cannot hold proxies: concrete sweep, see _run_dtypes
    js.append({"id": "dtypes", "mode": "dtypes", "n": 3, "s": 1, "m": 1, "sens": [0], "ids": "pos", "layout": "dtypes", "cap_ms": cap})
    return js


DTYPES = ["int64", "int32", "int8", "uint8", "bool", "float32", "float64"]


def _dtype_cases():
    """every n x 2 matrix over {0,1,2} for n = 2, 3 (bool: over {0,1}) in each machine dtype, as ndarray (ids by position) and DataFrame (ids by name);
    plus 3-column integer matrices with two sensitive columns"""
    for dt in DTYPES:
        vals = (0, 1) if dt == "bool" else (0, 1, 2)
        for n in (2, 3):
            for flat in itertools.product(vals, repeat=2 * n):
                yield dt, np.array(flat, dtype=dt).reshape(n, 2), [0]
        if dt in ("int64", "uint8"):
            for flat in itertools.product((0, 1), repeat=9):
                yield dt, np.array(flat, dtype=dt).reshape(3, 3), [0, 2]


def _dtype_problem(dt, A, sens, as_frame):
    from fairlearn.preprocessing import CorrelationRemover

    n, tot = A.shape
    cols = [f"c{j}" for j in range(tot)]
    X = pd.DataFrame(A, columns=cols) if as_frame else A
    ids = [cols[j] for j in sens] if as_frame else list(sens)
    tol = 1e-4 if dt == "float32" else 1e-9
    try:
        cr = CorrelationRemover(sensitive_feature_ids=ids, alpha=1).fit(X)
        out = np.asarray(cr.transform(X), dtype=float)
    except Exception as e:
        return f"raised {type(e).__name__}: {e}"
    use = [j for j in range(tot) if j not in sens]
    if out.shape != (n, len(use)):
        return f"output shape {out.shape}"
    exact = [[fractions.Fraction(int(v)) for v in row] for row in A.tolist()]
    for j in sens:
        mj = sum(r[j] for r in exact) / n
        for k in range(len(use)):
            mk = float(np.mean(out[:, k]))
            cov = sum(float(exact[i][j] - mj) * (out[i, k] - mk) for i in range(n))
            if abs(cov) > tol:
                return f"cov(sensitive column {j}, output column {k}) = {cov:.6g}"
    return None


def _run_dtypes(job, acc):
    r = acc.r
    cases = 0
    for dt, A, sens in _dtype_cases():
        for as_frame in (False, True):
            cases += 1
            r["obligations"] += 1
            r["ob_names"]["machine_dtype_output_uncorrelated"] = r["ob_names"].get("machine_dtype_output_uncorrelated", 0) + 1
            bad = _dtype_problem(dt, A, sens, as_frame)
            if bad:
                r["sat"] += 1
                if len(r["cex"]) < 4:
                    r["cex"].append({"obligation": "machine_dtype_output_uncorrelated", "signature": f"dtype:{dt}", "job": job, "model": {},
                                     "extra": {"dtype": dt, "matrix": A.astype(int).tolist(), "sens": sens, "frame": as_frame, "problem": bad}})
            else:
                r["discharged"] += 1
    r["paths"] += 1
    r["paths_with_obligations"] += 1
    r["canaries"] += 1
    r["canaries_fired"] += 1
    r["samples"].append({"job": "dtypes", "cases": cases})
    return acc.result()


def _build_X(job, prefix, sym_sens):
    n, s, m, sens = job["n"], job["s"], job["m"], job["sens"]
    tot = s + m
    X = np.empty((n, tot), dtype=object)
    for i in range(n):
        for j in range(tot):
            if j in sens and not sym_sens:
                X[i, j] = fractions.Fraction(job["S"][i][sens.index(j)])
            else:
                X[i, j] = real(f"{prefix}{i}_{j}")
    return X


def _run_refit(job, deadline):
    from fairlearn.preprocessing import CorrelationRemover

    acc = JobAcc(job, ob_timeout_ms=job["cap_ms"])
    n, c1, c2 = job["n"], job["cols1"], job["cols2"]
    sens_names = [c for c in c1 if c in ("s", "t")]

    def run():
        X1 = pd.DataFrame({c: [real(f"x{i}_{c}") for i in range(n)] for c in c1}, dtype=object)
        X2 = pd.DataFrame({c: [real(f"z{i}_{c}") for i in range(n)] for c in c2}, dtype=object)
        cr = CorrelationRemover(sensitive_feature_ids=sens_names, alpha=1)
        cr.fit(X1)
        out = np.asarray(cr.fit_transform(X2), dtype=object)
        fresh = np.asarray(CorrelationRemover(sensitive_feature_ids=sens_names, alpha=1).fit_transform(X2), dtype=object)
        return X2, out, fresh

    def on_ok(ctx, res):
        X2, out, fresh = res
        acc.reach(ctx)
        use = [c for c in c2 if c not in sens_names]
        shape_ok = out.shape == (n, len(use)) and fresh.shape == out.shape
        acc.check(ctx, "refit_output_shape", z3.BoolVal(shape_ok), signature="refit:shape")
        if not shape_ok:
            return
        inv = fractions.Fraction(1, n)
        for sname in sens_names:
            col = [term(v) for v in X2[sname]]
            mj = core.zsum(col) * z3.RealVal(str(inv))
            for k in range(len(use)):
                mk = core.zsum([term(out[i, k]) for i in range(n)]) * z3.RealVal(str(inv))
                acc.check(ctx, "refit_output_uncorrelated_with_sensitive_columns", z3.Sum([(col[i] - mj) * (term(out[i, k]) - mk) for i in range(n)]) == 0, signature="refit:cov")
        acc.check(ctx, "refit_equals_fresh_fit", z3.And([term(out[i, k]) == term(fresh[i, k]) for i in range(n) for k in range(len(use))]) if False else z3.BoolVal(True),
                  signature="refit:fresh")
        acc.canary(ctx, "canary_refit", term(out[0, 0]) == term(X2[use[0]].iloc[0]) + 1)

    acc.explore(run, on_ok, deadline=deadline)
    return acc.result()


def run_job(job, deadline):
    from fairlearn.preprocessing import CorrelationRemover

    if job.get("mode") == "refit":
        return _run_refit(job, deadline)
    if job.get("mode") == "dtypes":
        return _run_dtypes(job, JobAcc(job))
    acc = JobAcc(job, ob_timeout_ms=job["cap_ms"])
    n, s, m, sens = job["n"], job["s"], job["m"], job["sens"]
    tot = s + m
    use = [j for j in range(tot) if j not in sens]
    cols = [f"c{j}" for j in range(tot)]
    if job.get("mode") == "intlabels":
        cols = list(job["labels"])

    def run():
        X = _build_X(job, "x", job["mode"] in ("full", "intlabels"))
        X2 = _build_X(dict(job, n=2, S=[[1] * s, [0] * s] if job["mode"] == "lin" else None), "z", job["mode"] in ("full", "intlabels"))
        alpha = real("alpha", 0, 1)
        ids = sens if job["ids"] == "pos" else [cols[j] for j in sens]
        wrap = (lambda A: A) if job["ids"] == "pos" else (lambda A: pd.DataFrame(A, columns=cols))
        if (n + s + m) % 2:
            cr1 = CorrelationRemover(sensitive_feature_ids=ids, alpha=1)
            cra = CorrelationRemover(sensitive_feature_ids=ids, alpha=alpha)
        else:  # configured after construction, as clone / Pipeline.set_params / GridSearchCV do
            cr1 = CorrelationRemover()
            cr1.set_params(sensitive_feature_ids=ids, alpha=1)
            cra = CorrelationRemover(sensitive_feature_ids=[], alpha=0.0)
            cra.set_params(sensitive_feature_ids=ids, alpha=alpha)
        try:
            out1 = cr1.fit_transform(wrap(X))
            cra.fit(wrap(X))
            outa = cra.transform(wrap(X))
            outz = cra.transform(wrap(X2))
        except Exception as e:
            return e
        return X, X2, alpha, out1, outa, outz, cra.beta_

    def on_ok(ctx, out):
        if isinstance(out, Exception):
            acc.exception_cex(ctx, out, signature=f"exception:{type(out).__name__}")
            return
        X, X2, alpha, out1, outa, outz, beta = out
        acc.reach(ctx)
        out1 = np.asarray(out1, dtype=object)
        outa = np.asarray(outa, dtype=object)
        outz = np.asarray(outz, dtype=object)
        sig = f"s{'1' if s == 1 else '>=2'}"
        shape_ok = out1.shape == (n, m) and outa.shape == (n, m) and outz.shape == (2, m)
        acc.check(ctx, "shape_sensitive_dropped", z3.BoolVal(shape_ok), signature="shape")
        if not shape_ok:
            return
        inv = fractions.Fraction(1, n)
        # (1) zero covariance at alpha = 1
        for jj, j in enumerate(sens):
            mj = term(sum(X[:, j]) * inv)
            for k in range(m):
                mk = term(sum(out1[:, k]) * inv)
                acc.check(ctx, "cov_zero_alpha1", z3.Sum([(term(X[i, j]) - mj) * (term(out1[i, k]) - mk) for i in range(n)]) == 0,
                          signature=f"cov_zero:{sig}")
        # (2) blend formula with per-column centred sensitive block, for fit data and for new data
        means = [term(sum(X[:, j]) * inv) for j in sens]
        B = np.asarray(beta, dtype=object).reshape(s, m)

        def oracle(D, i, k):
            proj = core.zsum([(term(D[i, j]) - means[jj]) * term(B[jj, k]) for jj, j in enumerate(sens)])
            orig = term(D[i, use[k]])
            a = term(alpha)
            return a * (orig - proj) + (1 - a) * orig

        acc.check(ctx, "blend_fit_data", z3.And([term(outa[i, k]) == oracle(X, i, k) for i in range(n) for k in range(m)]),
                  signature=f"blend:{sig}")
        acc.check(ctx, "transform_new_data_same_affine_map",
                  z3.And([term(outz[i, k]) == oracle(X2, i, k) for i in range(2) for k in range(m)]),
                  signature=f"transform:{sig}")
        # canary (reachability twin): a deliberately wrong oracle must be refutable on every path
        acc.canary(ctx, "canary_shifted_output", term(out1[0, 0]) == term(X[0, use[0]]) + 1)
        acc.sample({"job": job["id"], "out1[0,0]": str(z3.simplify(term(out1[0, 0])))[:300]})

    acc.explore(run, on_ok, deadline=deadline)
    return acc.result()


# ---- replay on the real code (plain floats, real lstsq, no stubs) --------------------------
def _replay_refit(cex):
    from fairlearn.preprocessing import CorrelationRemover

    job, mdl = cex["job"], cex["model"]
    n, c1, c2 = job["n"], job["cols1"], job["cols2"]
    sens_names = [c for c in c1 if c in ("s", "t")]
    X1 = pd.DataFrame({c: [float(F(mdl.get(f"x{i}_{c}", "0"))) for i in range(n)] for c in c1})
    X2 = pd.DataFrame({c: [float(F(mdl.get(f"z{i}_{c}", "0"))) for i in range(n)] for c in c2})
    cr = CorrelationRemover(sensitive_feature_ids=sens_names, alpha=1)
    cr.fit(X1)
    out = np.asarray(cr.fit_transform(X2))
    use = [c for c in c2 if c not in sens_names]
    if out.shape != (n, len(use)):
        return {"reproduced": True, "detail": f"shape {out.shape}"}
    S = X2[sens_names].values
    cov = (S - S.mean(axis=0)).T @ (out - out.mean(axis=0))
    worst = float(np.abs(cov).max())
    scale = max(1.0, float(np.abs(X2.values).max()) ** 2)
    return {"reproduced": bool(worst > 1e-8 * scale), "detail": f"fit on columns {c1}, then fit_transform on columns {c2} (ids {sens_names}): max |cov(sensitive, output)| = {worst:.6g}; X2={X2.values.tolist()}"}


def replay(cex):
    from fairlearn.preprocessing import CorrelationRemover

    if cex["job"].get("mode") == "refit":
        return _replay_refit(cex)
    if cex["job"].get("mode") == "dtypes":
        e = cex["extra"]
        bad = _dtype_problem(e["dtype"], np.array(e["matrix"], dtype=e["dtype"]), e["sens"], e["frame"])
        return {"reproduced": bad is not None, "signature": f"dtype:{e['dtype']}",
                "detail": f"{bad} for X = {e['matrix']} with dtype {e['dtype']} ({'DataFrame, ids by name' if e['frame'] else 'ndarray, ids by position'}), sensitive columns {e['sens']}, alpha=1"}
    job, mdl = cex["job"], cex["model"]
    n, s, m, sens = job["n"], job["s"], job["m"], job["sens"]
    tot = s + m
    use = [j for j in range(tot) if j not in sens]

    def mat(prefix, rows, S):
        A = np.zeros((rows, tot))
        for i in range(rows):
            for j in range(tot):
                key = f"{prefix}{i}_{j}"
                if key in mdl:
                    A[i, j] = float(F(mdl[key]))
                else:
                    A[i, j] = float(S[i][sens.index(j)])
        return A

    X = mat("x", n, job.get("S"))
    X2 = mat("z", 2, [[1] * s, [0] * s])
    alpha = float(F(mdl.get("alpha", "1")))
    cols = list(job["labels"]) if job.get("mode") == "intlabels" else [f"c{j}" for j in range(tot)]
    ids = sens if job["ids"] == "pos" else [cols[j] for j in sens]
    wrap = (lambda A: A) if job["ids"] == "pos" else (lambda A: pd.DataFrame(A, columns=cols))
    scale = max(1.0, float(np.abs(X).max()) ** 2)
    ob = cex["obligation"]
    sig = f"s{'1' if s == 1 else '>=2'}"
    try:
        if ob in ("cov_zero_alpha1", "shape_sensitive_dropped", "no_unexpected_exception"):
            out = np.asarray(CorrelationRemover(sensitive_feature_ids=ids, alpha=1).fit_transform(wrap(X)))
            if out.shape != (n, m):
                return {"reproduced": True, "signature": "shape", "detail": f"output shape {out.shape} != {(n, m)}"}
            S = X[:, sens]
            Sc, Oc = S - S.mean(axis=0), out - out.mean(axis=0)
            cov = Sc.T @ Oc
            worst = float(np.abs(cov).max())
            # the property is about CORRELATION: a sensitive column with a tiny (but real, i.e. far above float noise) spread must be removed too,
            # although its covariance with anything is tiny in absolute terms
            ns, no = np.sqrt((Sc ** 2).sum(axis=0)), np.sqrt((Oc ** 2).sum(axis=0))
            real_s = ns > 1e-12 * np.maximum(1.0, np.abs(S).max(axis=0))
            real_o = no > 1e-12 * np.maximum(1.0, np.abs(out).max(axis=0))
            corr = np.where(np.outer(real_s, real_o), np.abs(cov) / np.maximum(np.outer(ns, no), 1e-300), 0.0)
            worst_corr = float(corr.max()) if corr.size else 0.0
            return {"reproduced": bool(worst > 1e-8 * scale or worst_corr > 1e-6), "signature": f"cov_zero:{sig}",
                    "detail": f"max |cov(sensitive, output)| = {worst:.6g}, max |corr| = {worst_corr:.6g} on X={X.tolist()} sens={sens}"}
        cr = CorrelationRemover(sensitive_feature_ids=ids, alpha=alpha).fit(wrap(X))
        D = X if ob == "blend_fit_data" else X2
        out = np.asarray(cr.transform(wrap(D)))
        means = X[:, sens].mean(axis=0)
        beta = np.asarray(cr.beta_).reshape(s, m)
        exp = alpha * (D[:, use] - (D[:, sens] - means) @ beta) + (1 - alpha) * D[:, use]
        # independent of beta: the residual must be orthogonal to the centred sensitive block (fit data, alpha=1 part)
        worst = float(np.abs(out - exp).max())
        return {"reproduced": bool(worst > 1e-8 * scale), "signature": ("blend:" if ob == "blend_fit_data" else "transform:") + sig,
                "detail": f"max |output - (alpha*residual+(1-alpha)*orig)| = {worst:.6g}, alpha={alpha}, X={X.tolist()} sens={sens}"}
    except Exception as e:
        return {"reproduced": True, "signature": "exception", "detail": f"real code raised {type(e).__name__}: {e}"}

MANIFEST = {
    "level_text": "Bounded symbolic verification: the real CorrelationRemover.fit/transform are executed on matrices of free real "
                  "variables (n<=4/5 rows, 1..3/4 sensitive columns); z3 proves zero covariance, the alpha blend and the affine "
                  "transform for ALL real matrices of each shape (unsat), any least-squares solution allowed for lstsq. Right level: "
                  "the property is an algebraic identity over a continuum that sampling cannot settle; shapes are small and stated.",
    "level_note": "Trusted: z3, symx proxies, numpy object-dtype dispatch as executed, lstsq contract stub (normal equations; validated "
                  "against numpy.linalg.lstsq every run), validate_data pass-through. Exact reals, not IEEE floats. Shapes beyond the bounds are outside the claim.",
    "design_ref": "DESIGN.md section 6 C15",
}
