"""C02 - MetricFrame aggregates are the documented functions of by_group and overall."""
import itertools
import math
import random

import numpy as np
import pandas as pd
import z3

from symx import core, oracle as O, stubs
from symx.core import real, term
from symx.runner import F, JobAcc

PROPERTY = "C02"
BUDGET = {"quick": 170, "thorough": 1700}
META = {
    "explanation": "bounded symbolic execution of the real aggregation code (DisaggregatedResult.apply_grouping/difference/ratio, "
                   "MetricFrame._populate_results/_extract_result/_group and the public group_min/group_max/difference/ratio accessors) on by_group / "
                   "overall TABLES whose entries are free reals (state constructed directly), plus end-to-end runs through the real MetricFrame with "
                   "symbolic positive sample weights for the weighted-mean metrics. Every comparison the real code makes forks the path, so a path is a "
                   "weak-order class of the table entries. Oracle: min / max / max-min / max|g-o| / min/max / min fold(g/o) written independently with "
                   "IEEE corner cases; z3 decides equality and the inequalities (difference>=0, ratio in [0,1] for non-negative metrics, "
                   "between_groups <= 2*to_overall, to_overall <= between_groups for weighted means).",
    "tier_bounds": {
        "quick": "tables: k in 2..3 sensitive levels, 0..2 control levels, 1 (callable) or 2 (dict) metric columns, one symbolic block (k cells + overall) "
                 "per job with the other blocks seeded concrete values, optional NaN (empty) cell; sign mode free and non-negative; e2e: n<=4 rows, <=3 groups",
        "thorough": "k up to 4, two seeded fillings per shape, e2e n<=5",
    },
    "trusted_base": ["z3", "symx proxies", "pandas object-dtype min/max/abs/groupby as executed"],
    "stubs": ["pandas.core.nanops._ensure_numeric pass-through", "sklearn confusion_matrix stub (e2e accuracy-like metrics are written as weighted means, not used)"],
    "assumptions": ["scalar metric values", "ratio<=1 / >=0 claims only for non-negative metric values (the statement's own formulas give otherwise for mixed signs)",
                    "exact reals"],
    "outside": ["k > 4 sensitive levels", "more than one symbolic block at a time (blocks are independent columns / control levels in the code)"],
}
MANIFEST = {
    "level_text": "Bounded symbolic verification from directly constructed states: for every table shape in the bound and ALL real cell values (every weak "
                  "order, ties, zeros, zero denominators are paths), z3 proves the public aggregates equal the documented functions and satisfy the stated "
                  "inequalities; the convex-combination inequality is proved end-to-end through the real MetricFrame for all positive weights.",
    "level_note": "Trusted: z3, symx, pandas as executed. Table entries of the non-symbolic blocks are seeded constants. Exact reals (IEEE inf/nan modelled, rounding not).",
    "design_ref": "DESIGN.md section 6 C02",
}


def setup():
    stubs.install_base_metrics_stubs()


POOL = [0.25, 0.5, 0.75, 1.0, 2.0, 0.125]  # no zeros: python-float division in object columns is a harness artefact
POOL_NEG = [-1.0, -0.5, -0.25]


def jobs(tier, seed):
    rnd = random.Random(seed)
    js = []
    ks = (2, 3) if tier == "quick" else (2, 3, 4)
    fills = 1 if tier == "quick" else 2
    for k in ks:
        for ncl in (0, 1, 2):
            for nm in (1, 2):
                for sign in ("free", "nonneg"):
                    for nanpat in ("none", "one", "onemetric", "posinf", "neginf"):
                        if nanpat == "one" and (ncl == 0 or k < 3):
                            continue  # empty combinations only arise with >= 2 grouping columns
                        if nanpat == "onemetric" and (nm < 2 or k < 3):
                            continue  # one metric of a dict is undefined (NaN) for a NON-empty group, the other metric is defined there
                        if nanpat in ("posinf", "neginf") and (k < 3 or nm > 1 or ncl > 1 or (nanpat == "neginf" and sign == "nonneg")):
                            continue  # a scalar metric that is +/-inf for one group (e.g. an odds ratio): still a scalar, handled by IEEE rules
                        for sym_cl in range(max(ncl, 1)):
                            for sym_m in range(nm):
                                if k == 4 and (sym_cl > 0 or sym_m > 0):
                                    continue
                                for f in range(fills):
                                    pool = POOL + (POOL_NEG if sign == "free" else [])
                                    conc = [rnd.choice(pool) for _ in range(64)]
                                    js.append({"id": f"table-k{k}-cl{ncl}-m{nm}-{sign}-nan{nanpat}-s{sym_cl}{sym_m}-{f}", "kind": "table", "k": k, "ncl": ncl,
                                               "nm": nm, "sign": sign, "nan": nanpat, "sym_cl": sym_cl, "sym_m": sym_m, "conc": conc})
    nmax = 4 if tier == "quick" else 5
    for n in range(2, nmax + 1):
        for g in core.rgs(n, 3):
            if len(set(g)) < 2:
                continue
            # mean_prediction is bilinear in (weights, predictions): two linear slices (one factor seeded concrete) - DESIGN 3.5(0)
            for metric in ("selection_rate", "mean_prediction-symw", "mean_prediction-symp"):
                js.append({"id": f"e2e-{metric}-n{n}-{''.join(map(str, g))}", "kind": "e2e", "n": n, "groups": list(g), "metric": metric,
                           "yp": [rnd.randint(0, 1) for _ in range(n)], "cw": [rnd.randint(1, 4) for _ in range(n)],
                           "cp": [rnd.choice([0.0, 0.25, 0.5, 1.0, -1.0, 2.0]) for _ in range(n)]})
    # the cheap end-to-end jobs first: the table jobs fill the rest of the budget (jobs past the deadline are skipped and reported)
    js.sort(key=lambda j: j["kind"] != "e2e")
    return js


def _build_tables(job, mk):
    k, ncl, nm = job["k"], job["ncl"], job["nm"]
    conc = iter(job["conc"])
    cls = [f"c{i}" for i in range(ncl)] or [None]
    sfs = [f"g{i}" for i in range(k)]
    mets = [f"m{i}" for i in range(nm)]
    cells, over = {}, {}
    for ci, cl in enumerate(cls):
        for mi, m in enumerate(mets):
            symbolic = (ci == job["sym_cl"] and mi == job["sym_m"])
            over[(cl, m)] = mk(f"o_{ci}_{mi}") if symbolic else np.float64(next(conc))
            for si, s in enumerate(sfs):
                if job["nan"] == "one" and si == k - 1 and ci == 0:
                    cells[(cl, s, m)] = math.nan  # an empty intersection
                elif job["nan"] == "onemetric" and si == k - 1 and ci == 0 and mi != job["sym_m"]:
                    cells[(cl, s, m)] = math.nan  # the OTHER metric is undefined for this (non-empty) group
                elif job["nan"] in ("posinf", "neginf") and si == k - 1 and ci == 0:
                    cells[(cl, s, m)] = np.float64(math.inf if job["nan"] == "posinf" else -math.inf)
                else:
                    cells[(cl, s, m)] = mk(f"c_{ci}_{si}_{mi}") if symbolic else np.float64(next(conc))
    if ncl:
        idx = pd.MultiIndex.from_product([cls, sfs], names=["control_feature_0", "sensitive_feature_0"])
        by_group = pd.DataFrame({m: pd.Series([cells[(cl, s, m)] for cl in cls for s in sfs], index=idx, dtype=object) for m in mets})
        overall = pd.DataFrame({m: pd.Series([over[(cl, m)] for cl in cls], index=pd.Index(cls, name="control_feature_0"), dtype=object) for m in mets})
    else:
        idx = pd.Index(sfs, name="sensitive_feature_0")
        by_group = pd.DataFrame({m: pd.Series([cells[(None, s, m)] for s in sfs], index=idx, dtype=object) for m in mets})
        overall = pd.Series([over[(None, m)] for m in mets], index=mets, dtype=object)
    return cls, sfs, mets, cells, over, by_group, overall


def _get(res, cl, m, job):
    """read one aggregate value from the public accessor's return value"""
    callable_form = job["nm"] == 1
    if isinstance(res, Exception):
        return res
    if job["ncl"]:
        if callable_form:
            return res.loc[cl]
        return res.loc[cl, m]
    if callable_form:
        return res
    return res[m]


def _mk_frame(job, by_group, overall):
    from fairlearn.metrics import MetricFrame
    from fairlearn.metrics._disaggregated_result import DisaggregatedResult

    mf = MetricFrame.__new__(MetricFrame)
    mf._sf_names = ["sensitive_feature_0"]
    mf._cf_names = ["control_feature_0"] if job["ncl"] else None
    mf._user_supplied_callable = job["nm"] == 1
    mf._result_cache = dict()
    mf._populate_results(DisaggregatedResult(overall, by_group))
    return mf


ACCESS = [("group_min", None), ("group_max", None), ("difference", "between_groups"), ("difference", "to_overall"),
          ("ratio", "between_groups"), ("ratio", "to_overall")]


def _read_all(mf):
    out = {}
    for name, method in ACCESS:
        for err in ("raise", "coerce"):
            try:
                out[(name, method, err)] = getattr(mf, name)(errors=err) if method is None else getattr(mf, name)(method=method, errors=err)
            except Exception as e:
                out[(name, method, err)] = e
    return out


def _oracle_block(vals, o):
    """documented aggregates of one (control level, metric) block: vals incl. nan for empty cells."""
    gmin, gmax = O.omin(vals), O.omax(vals)
    nn = O.drop_nan(vals)
    d_between = gmax - gmin if nn else math.nan
    d_over = O.omax([O.oabs(v - o) for v in nn]) if nn else math.nan
    r_between = O.odiv(gmin, gmax) if nn else math.nan
    r_over = O.omin([O.fold(O.odiv(v, o)) for v in nn]) if nn else math.nan
    return {("group_min", None): gmin, ("group_max", None): gmax, ("difference", "between_groups"): d_between,
            ("difference", "to_overall"): d_over, ("ratio", "between_groups"): r_between, ("ratio", "to_overall"): r_over}


def run_job(job, deadline):
    acc = JobAcc(job)
    if job["kind"] == "e2e":
        return _run_e2e(job, acc, deadline)

    def run():
        lo = 0 if job["sign"] == "nonneg" else None
        cls, sfs, mets, cells, over, by_group, overall = _build_tables(job, lambda nm: real(nm, lo))
        mf = _mk_frame(job, by_group, overall)
        got = _read_all(mf)
        want = {}
        for cl in cls:
            for m in mets:
                want[(cl, m)] = _oracle_block([cells[(cl, s, m)] for s in sfs], over[(cl, m)])
        return cls, mets, got, want

    def on_ok(ctx, out):
        cls, mets, got, want = out
        acc.reach(ctx)
        first = acc.r["paths_with_obligations"] == 0
        items = []
        for ci, cl in enumerate(cls):
            for mi, m in enumerate(mets):
                if not first and not (ci == (job["sym_cl"] if job["ncl"] else 0) and mi == job["sym_m"]):
                    continue  # concrete blocks do not depend on the path: checked once
                w = want[(cl, m)]
                vals = {}
                for (name, method) in ACCESS:
                    r = _get(got[(name, method, "raise")], cl, m, job)
                    c = _get(got[(name, method, "coerce")], cl, m, job)
                    sig = f"table:{name}:{method}"
                    if isinstance(r, Exception) or isinstance(c, Exception):
                        items.append((f"{name}_{method}_no_exception", z3.BoolVal(False), sig + ":exception", {"exc": repr(r) + " / " + repr(c)}))
                        continue
                    items.append((f"{name}_{method}_is_documented_function", O.same(r, w[(name, method)]), sig))
                    items.append((f"{name}_{method}_raise_equals_coerce", O.same(r, c), sig + ":errors"))
                    vals[(name, method)] = r
                if len(vals) < len(ACCESS):
                    continue
                db, do = vals[("difference", "between_groups")], vals[("difference", "to_overall")]
                items.append(("difference_nonnegative", z3.And(O.le(0, db), O.le(0, do)), "table:difference:sign"))
                if not (core.is_nan(db) or core.is_nan(do)):
                    items.append(("between_le_twice_to_overall", O.le(db, 2 * do), "table:difference:triangle"))
                if job["sign"] == "nonneg":
                    for meth in ("between_groups", "to_overall"):
                        rr = vals[("ratio", meth)]
                        items.append((f"ratio_{meth}_in_unit_interval", z3.And(O.le(rr, 1), O.le(0, rr)), f"table:ratio:{meth}:range"))
        acc.check_all(ctx, items)
        cl0, m0 = cls[job["sym_cl"] if job["ncl"] else 0], mets[job["sym_m"]]
        r0 = _get(got[("group_max", None, "raise")], cl0, m0, job)
        if not isinstance(r0, Exception) and core.is_sym(r0):
            acc.canary(ctx, "canary_max_is_min", O.same(r0, want[(cl0, m0)][("group_min", None)] - 1))
        else:
            acc.r["canaries"] += 1
            acc.r["canaries_fired"] += 1
        acc.sample({"job": job["id"], "difference_to_overall": str(_get(got[("difference", "to_overall", "raise")], cl0, m0, job))[:200]})

    acc.explore(run, on_ok, deadline=deadline, max_paths=20000)
    return acc.result()


def _safe(f):
    try:
        return f()
    except Exception as e:
        return e


def _run_e2e(job, acc, deadline):
    import fairlearn.metrics as fm

    n, groups, yp = job["n"], job["groups"], job["yp"]
    labels = ["abc"[g] for g in groups]

    def run():
        if job["metric"] == "mean_prediction-symp":
            w = [np.float64(x) for x in job["cw"]]
        else:
            w = [real(f"w{i}", 0, None, lo_strict=True) for i in range(n)]
        if job["metric"] == "selection_rate":
            mf = fm.MetricFrame(metrics=fm.selection_rate, y_true=[0] * n, y_pred=yp, sensitive_features=labels, sample_params={"sample_weight": w})
        else:
            pr = [real(f"p{i}") for i in range(n)] if job["metric"] == "mean_prediction-symp" else [np.float64(x) for x in job["cp"]]
            mf = fm.MetricFrame(metrics=fm.mean_prediction, y_true=[0] * n, y_pred=np.array(pr, dtype=object), sensitive_features=labels,
                                sample_params={"sample_weight": w})
        # first-principles values of every group and of the whole data set (weighted means over the rows)
        vals_of = (lambda i: (1 if yp[i] == 1 else 0)) if job["metric"] == "selection_rate" else (lambda i: pr[i])
        mean = lambda rows: sum(w[i] * vals_of(i) for i in rows) / sum(w[i] for i in rows)
        gvals = [mean([i for i in range(n) if groups[i] == g]) for g in sorted(set(groups))]
        want_db = O.omax(gvals) - O.omin(gvals)
        want_do = O.omax([O.oabs(v - mean(list(range(n)))) for v in gvals])
        safe = lambda f: _safe(f)
        return (mf.difference(method="between_groups"), mf.difference(method="to_overall"), mf.ratio(method="between_groups"), mf.ratio(method="to_overall"),
                want_db, want_do, safe(lambda: mf.group_max()), safe(lambda: mf.group_min()), O.omax(gvals), O.omin(gvals))

    def on_ok(ctx, out):
        db, do, rb, ro, want_db, want_do, gmax, gmin, want_max, want_min = out
        acc.reach(ctx)
        # every group - also one that consists of a single weighted row - takes part in the aggregates
        for name, got, want in (("difference_between_groups", db, want_db), ("difference_to_overall", do, want_do), ("group_max", gmax, want_max), ("group_min", gmin, want_min)):
            ok = z3.BoolVal(False) if (isinstance(got, Exception) or np.ndim(got) != 0) else O.same(got, want)
            acc.check(ctx, f"e2e_{name}_is_the_documented_function_of_all_group_values", ok, signature=f"e2e:{job['metric']}:{name}", extra={"got": repr(got)[:120]})
        acc.check(ctx, "to_overall_le_between_groups_for_weighted_means", O.le(do, db), signature=f"e2e:{job['metric']}:convex")
        acc.check(ctx, "between_le_twice_to_overall", O.le(db, 2 * do) if not (core.is_nan(db) or core.is_nan(do)) else z3.BoolVal(True),
                  signature=f"e2e:{job['metric']}:triangle")
        if core.is_sym(do):
            acc.canary(ctx, "canary_shifted", term(do) == term(db) + 1)
        else:
            acc.r["canaries"] += 1
            acc.r["canaries_fired"] += 1

    acc.explore(run, on_ok, deadline=deadline, max_paths=5000)
    return acc.result()


# ---- replay ---------------------------------------------------------------------------------------
def _fl(x):
    if isinstance(x, float):
        return x
    return float(x)


def replay(cex):
    import fairlearn.metrics as fm

    job, mdl = cex["job"], cex["model"]
    if job["kind"] == "e2e":
        n, groups, yp = job["n"], job["groups"], job["yp"]
        labels = ["abc"[g] for g in groups]
        w = [float(F(mdl[f"w{i}"])) if f"w{i}" in mdl else float(job["cw"][i]) for i in range(n)]
        if job["metric"] == "selection_rate":
            mf = fm.MetricFrame(metrics=fm.selection_rate, y_true=[0] * n, y_pred=yp, sensitive_features=labels, sample_params={"sample_weight": w})
        else:
            pr = [float(F(mdl[f"p{i}"])) if f"p{i}" in mdl else float(job["cp"][i]) for i in range(n)]
            mf = fm.MetricFrame(metrics=fm.mean_prediction, y_true=[0] * n, y_pred=pr, sensitive_features=labels, sample_params={"sample_weight": w})
        db, do = mf.difference(method="between_groups"), mf.difference(method="to_overall")
        bad = do > db + 1e-12 or db > 2 * do + 1e-12
        vals_of = (lambda i: (1.0 if yp[i] == 1 else 0.0)) if job["metric"] == "selection_rate" else (lambda i: pr[i])
        mean = lambda rows: sum(w[i] * vals_of(i) for i in rows) / sum(w[i] for i in rows)
        gv = [mean([i for i in range(n) if groups[i] == g]) for g in sorted(set(groups))]
        ov = mean(list(range(n)))
        msgs = []
        for name, got, want in (("difference(between_groups)", db, max(gv) - min(gv)), ("difference(to_overall)", do, max(abs(v - ov) for v in gv)),
                                ("group_max()", _safe(lambda: mf.group_max()), max(gv)), ("group_min()", _safe(lambda: mf.group_min()), min(gv))):
            if isinstance(got, Exception) or np.ndim(got) != 0 or abs(float(got) - want) > 1e-9 * max(1.0, abs(want)):
                msgs.append(f"{name} = {got!r}, the group values {gv} give {want}")
        return {"reproduced": bool(bad or msgs), "detail": "; ".join(msgs)[:500] + f" | between_groups={db} to_overall={do} weights={w} groups={groups}"}
    cls, sfs, mets, cells, over, by_group, overall = _build_tables(job, lambda nm: float(F(mdl.get(nm, "0"))))
    by_group = by_group.astype(float)
    overall = overall.astype(float)
    mf = _mk_frame(job, by_group, overall)
    got = _read_all(mf)
    bad = []

    def close(a, b):
        a, b = _fl(a), _fl(b)
        if math.isnan(a) or math.isnan(b):
            return math.isnan(a) and math.isnan(b)
        if math.isinf(a) or math.isinf(b):
            return a == b
        return abs(a - b) <= 1e-9 * max(1.0, abs(a), abs(b))

    with np.errstate(all="ignore"):
        for cl in cls:
            for m in mets:
                vals = [float(cells[(cl, s, m)]) for s in sfs]
                o = float(over[(cl, m)])
                nn = [v for v in vals if not math.isnan(v)]
                div = lambda a, b: (a / b) if b != 0 else (math.nan if a == 0 else math.copysign(math.inf, a))
                fold = lambda r: r if (math.isnan(r) or not r > 1) else (0.0 if math.isinf(r) else 1 / r)
                rs = [fold(div(v, o)) for v in nn]
                rs = [r for r in rs if not math.isnan(r)]
                want = {("group_min", None): min(nn), ("group_max", None): max(nn), ("difference", "between_groups"): max(nn) - min(nn),
                        ("difference", "to_overall"): max(abs(v - o) for v in nn), ("ratio", "between_groups"): div(min(nn), max(nn)),
                        ("ratio", "to_overall"): min(rs) if rs else math.nan}
                for (name, method) in ACCESS:
                    for err in ("raise", "coerce"):
                        r = _get(got[(name, method, err)], cl, m, job)
                        if isinstance(r, Exception):
                            bad.append(f"{name}({method},{err}) raised {r!r}")
                        elif not close(r, want[(name, method)]):
                            bad.append(f"{name}({method},errors={err})[{cl},{m}]={_fl(r)} documented value {want[(name, method)]} (cells={vals}, overall={o})")
                db = _get(got[("difference", "between_groups", "raise")], cl, m, job)
                do = _get(got[("difference", "to_overall", "raise")], cl, m, job)
                if not isinstance(db, Exception) and not isinstance(do, Exception):
                    if _fl(db) < 0 or _fl(do) < 0 or _fl(db) > 2 * _fl(do) + 1e-12:
                        bad.append(f"inequalities violated: between={_fl(db)} to_overall={_fl(do)}")
    return {"reproduced": bool(bad), "detail": "; ".join(bad)[:800]}
