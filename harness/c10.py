"""C10 - randomised predictors sample from the probability mass function they report."""
import itertools
import math
import random

import numpy as np
import pandas as pd
import z3
from sklearn.utils import Bunch

from harness import thresh_common as tc
from symx import core, oracle as O
from symx.core import SReal, integer, real, term
from symx.runner import F, JobAcc

PROPERTY = "C10"
BUDGET = {"quick": 170, "thorough": 1500}
META = {
    "explanation": "bounded symbolic execution of the real ExponentiatedGradient._pmf_predict/predict and InterpolatedThresholder._pmf_predict/predict "
                   "(also through ThresholdOptimizer) from DIRECTLY CONSTRUCTED fitted states: EG - predictors with symbolic outputs, weights_ symbolic in "
                   "the simplex (zeros allowed) under every permutation of its index labels; thresholder - symbolic p0, thresholds, p_ignore, "
                   "prediction_constant, operator combinations, symbolic scores. The RNG is replaced by its contract: rand(n) -> fresh symbolic u in "
                   "(0,1), choice(a,p) -> value a[j] with probability p[j] POSITIONALLY (validated against numpy each run). z3 decides: rows are valid "
                   "distributions; P1 = sum_t weights_[t]*h_t(x) by label; label=1 <=> u<=p (hence P(label=1)=p and determinism at p in {0,1}); for "
                   "regression the probability attached to predictor t's value equals weights_[t]; thresholder probability depends only on (score, group) "
                   "and is monotone in the score without flip. Reproducibility for a fixed integer seed is run on the real RNG (seeds are sampled).",
    "tier_bounds": {"quick": "EG: T<=3 predictors, all permutations of the weights_ index, n<=2 query rows, classification and regression; thresholder: 2 groups, "
                             "3 rows, 6 of the 16 operator combinations (all 16 in thorough), with and without p_ignore; real-RNG reproducibility 3 seeds",
                    "thorough": "T<=4, n<=3; thresholder 4 rows, 3 groups; 30 seeds"},
    "trusted_base": ["z3", "symx", "RNG contract stub (validated against numpy.random.RandomState)", "pandas as executed"],
    "stubs": ["check_random_state in exponentiated_gradient / _interpolated_thresholder -> contract RNG", "check_array pass-through", "score provider"],
    "assumptions": ["one row of the '-inf' thresholder jobs carries a concrete +inf / -inf score next to the symbolic ones (still a valid distribution)",
                    "job thr-mixedlabels: rules keyed '1' and 'a' (the state a fit on a mixed-type label list reaches), the same row queried in two batches",
                    "u in the open interval (0,1) (u=0 is a null event)", "weights_ >= 0 summing to 1", "p0 in [0,1], p1=1-p0, p_ignore, constant in [0,1]"],
    "outside": ["frequencies of the real RNG stream", "states not reachable by fit are included (over-approximation); counter-examples are replayed on the real code with the real RNG"],
}
MANIFEST = {
    "level_text": "Bounded symbolic verification from arbitrary (directly constructed) fitted states with the RNG as a nondeterministic contract stub: for "
                  "ALL weights, predictor outputs, thresholds, interpolation constants, scores and uniform draws z3 proves the reported pmf is valid and "
                  "that the sampling rule realises exactly that pmf.",
    "level_note": "Trusted: z3, symx, RNG contract stub. Constructed states over-approximate reachable ones; violations are replayed on the real predict with the real numpy RNG (frequency test with fixed seeds).",
    "design_ref": "DESIGN.md section 6 C10",
}

CHOICES = []


class RNGStub:
    def rand(self, n):
        c = core.cur()
        out = []
        for i in range(n):
            u = z3.Real(f"u{i}")
            c.inputs[f"u{i}"] = u
            c.assume(z3.And(u > 0, u < 1))
            out.append(SReal(u))
        return np.array(out, dtype=object)

    def choice(self, a, p=None):
        a = list(np.asarray(a, dtype=object))
        pp = list(np.asarray(p, dtype=object)) if p is not None else [1.0 / len(a)] * len(a)
        CHOICES.append((a, pp))
        return a[0]  # any member; the obligation is stated on (a, p)


_orig = {}


def setup():
    import fairlearn.postprocessing._interpolated_thresholder as itm
    import fairlearn.reductions._exponentiated_gradient.exponentiated_gradient as egm

    tc.setup()
    _orig["it"] = itm.check_random_state
    _orig["eg"] = egm.check_random_state
    itm.check_random_state = lambda rs: RNGStub() if rs == "SYM" else _orig["it"](rs)
    egm.check_random_state = lambda rs: RNGStub() if rs == "SYM" else _orig["eg"](rs)


def prechecks():
    items = []
    rs = np.random.RandomState(5)
    u = rs.rand(1000)
    items.append({"stub": "rand range", "ok": bool((u >= 0).all() and (u < 1).all())})
    ok = True
    for j in range(3):
        p = [0.0, 0.0, 0.0]
        p[j] = 1.0
        ok = ok and np.random.RandomState(1).choice(np.array([10.0, 20.0, 30.0]), p=p) == [10.0, 20.0, 30.0][j]
        ok = ok and np.random.RandomState(1).choice(pd.Series([10.0, 20.0, 30.0], index=[2, 0, 1]), p=pd.Series(p, index=[1, 2, 0])) == [10.0, 20.0, 30.0][j]
    items.append({"stub": "choice is positional (also for pandas arguments)", "ok": bool(ok)})
    return {"ok": all(i["ok"] for i in items), "items": items}


def jobs(tier, seed):
    js = []
    Tmax = 3 if tier == "quick" else 4
    nq = 2 if tier == "quick" else 3
    for T in range(1, Tmax + 1):
        for perm in itertools.permutations(range(T)):
            for kind in ("classification", "regression"):
                js.append({"id": f"eg-{kind}-T{T}-{''.join(map(str, perm))}", "kind": "eg", "mode": kind, "T": T, "perm": list(perm), "n": nq})
    for T in (1, 2):
        js.append({"id": f"eg-inplace-T{T}", "kind": "eginplace", "T": T})
    ops = list(itertools.product("><", repeat=4))
    if tier == "quick":
        ops = [o for o in ops if o in ((">", ">", ">", ">"), ("<", "<", "<", "<"), (">", "<", ">", "<"), ("<", ">", ">", ">"), (">", ">", "<", "<"), ("<", "<", ">", "<"))]
    for oi, op in enumerate(ops):
        for ignore in (False, True):
            js.append({"id": f"thr-{''.join(op).replace('>', 'g').replace('<', 'l')}-{'ign' if ignore else 'noign'}", "kind": "thr", "ops": list(op), "ignore": ignore,
                       "rows": 3 if tier == "quick" else 4})
            # the last row's base score is not finite (a log-odds / decision_function value of +-inf): still a valid distribution, still a function of
            # (score, group); thresholds are +-inf themselves in fitted rules, input validation admits such scores
            js.append({"id": f"thr-{''.join(op).replace('>', 'g').replace('<', 'l')}-{'ign' if ignore else 'noign'}-inf", "kind": "thr", "ops": list(op),
                       "ignore": ignore, "rows": 3, "inf": 1 if (oi + ignore) % 2 else -1})
    # group labels of mixed Python types (1 and 'a' in one list): the batch decides how numpy coerces them
    for ignore in (False, True):
        js.append({"id": f"thr-mixedlabels-{'ign' if ignore else 'noign'}", "kind": "thrmixed", "ops": [">", ">", ">", ">"], "ignore": ignore})
    js.append({"id": "seeds", "kind": "seeds", "nseeds": 3 if tier == "quick" else 30, "seed": seed})
    return js


def _mk_eg(mode, T, perm, weights, outputs, n):
    import fairlearn.reductions as red

    cons = red.DemographicParity() if mode == "classification" else red.BoundedGroupLoss(red.ZeroOneLoss(), upper_bound=0.1)
    eg = red.ExponentiatedGradient(estimator=None, constraints=cons)
    eg._hs = pd.Series([(lambda X, t=t: np.array(outputs[t], dtype=object if any(core.is_sym(v) for v in outputs[t]) else float)) for t in range(T)], dtype=object)
    eg.weights_ = pd.Series([weights[t] for t in perm], index=list(perm), dtype=object if any(core.is_sym(w) for w in weights) else float)
    eg.predictors_ = eg._hs
    eg.best_gap_ = 0.0
    return eg


def run_job(job, deadline):
    acc = JobAcc(job)
    if job["kind"] == "eg":
        _eg(acc, job, deadline)
    elif job["kind"] == "eginplace":
        _eg_inplace(acc, job, deadline)
    elif job["kind"] == "thr":
        _thr(acc, job, deadline)
    elif job["kind"] == "thrmixed":
        _thr_mixed(acc, job, deadline)
    else:
        _seeds(acc, job)
    return acc.result()


def _eg(acc, job, deadline):
    mode, T, perm, n = job["mode"], job["T"], job["perm"], job["n"]
    X = np.arange(n).reshape(-1, 1)

    def run():
        del CHOICES[:]
        w = [real(f"w{t}", 0, 1) for t in range(T)]
        core.cur().assume(core.zsum([term(x) for x in w]) == 1)
        if mode == "classification":
            outs = [[integer(f"h{t}_{i}", 0, 1) for i in range(n)] for t in range(T)]
        else:
            outs = [[float(10 * (t + 1) + i) for i in range(n)] for t in range(T)]  # distinct concrete values identify the predictor
        eg = _mk_eg(mode, T, perm, w, outs, n)
        try:
            pm = eg._pmf_predict(X)
            lab = eg.predict(X, random_state="SYM")
        except Exception as e:
            return e
        return w, outs, pm, lab, list(CHOICES)

    def on_ok(ctx, out):
        if isinstance(out, Exception):
            acc.exception_cex(ctx, out, signature=f"eg:{mode}:exception")
            return
        w, outs, pm, lab, choices = out
        acc.reach(ctx)
        sig = f"eg:{mode}"
        items = []
        if mode == "classification":
            pm = np.asarray(pm, dtype=object)
            for i in range(n):
                mix = core.zsum([term(w[t]) * term(outs[t][i]) for t in range(T)])
                items.append(("pmf_is_weights_mixture_by_label", term(pm[i, 1]) == mix, sig + ":mixture"))
                items.append(("pmf_valid_distribution", z3.And(term(pm[i, 0]) + term(pm[i, 1]) == 1, term(pm[i, 1]) >= 0, term(pm[i, 1]) <= 1), sig + ":valid"))
                li = int(lab[i])
                items.append(("label_is_one_iff_u_le_p", z3.BoolVal(li in (0, 1)) if False else ((z3.Real(f"u{i}") <= term(pm[i, 1])) == z3.BoolVal(li == 1)), sig + ":sampling"))
            acc.check_all(ctx, items)
            acc.canary(ctx, "canary_eg_cls", term(pm[0, 1]) == core.zsum([term(w[t]) * term(outs[t][0]) for t in range(T)]) + 1)
        else:
            ok_calls = len(choices) == n
            items.append(("one_draw_per_row", z3.BoolVal(ok_calls), sig + ":draws"))
            if ok_calls:
                order = "sorted" if perm == sorted(perm) else "unsorted"
                for i, (a, p) in enumerate(choices):
                    # probability mass attached to predictor t's value must be weights_[t] (by label)
                    for t in range(T):
                        mass = core.zsum([term(p[j]) for j in range(len(a)) if not core.is_sym(a[j]) and float(a[j]) == outs[t][i]])
                        zero_mass_ok = z3.BoolVal(True)
                        items.append(("regression_value_of_predictor_t_drawn_with_weight_t", z3.Or(mass == term(w[t]), z3.And(term(w[t]) == 0, mass == 0)),
                                      f"{sig}:choice_mass:index_{order}"))
                    tot0 = core.zsum([term(p[j]) for j in range(len(a)) if not core.is_sym(a[j]) and float(a[j]) == 0.0])
                    items.append(("zero_filled_columns_carry_no_mass", tot0 == 0, f"{sig}:zero_mass:index_{order}"))
            acc.check_all(ctx, items)
            acc.canary(ctx, "canary_eg_reg", term(w[0]) == 2)
        acc.sample({"job": job["id"], "weights_index": perm})

    acc.explore(run, on_ok, deadline=deadline, max_paths=4000)


class _RowModel:
    """stored classifier whose prediction depends on the CONTENT of X (row id in column 0)"""

    def __init__(self, table):
        self.table = table

    def predict(self, X):
        ids = [int(v) for v in np.asarray(X)[:, 0]]
        return np.array([self.table[i] for i in ids], dtype=object if any(core.is_sym(v) for v in self.table) else float)


def _eg_inplace(acc, job, deadline):
    """history: query X, modify the SAME X object in place, query again - the reported pmf must be the mixture for the CURRENT contents.
    The stored predictors are the real _PredictorAsCallable wrappers (as after a real fit)."""
    import fairlearn.reductions as red
    from fairlearn.reductions._exponentiated_gradient._lagrangian import _PredictorAsCallable

    T = job["T"]

    def build(w, tables):
        eg = red.ExponentiatedGradient(estimator=None, constraints=red.DemographicParity())
        eg._hs = pd.Series([_PredictorAsCallable(_RowModel(tables[t])) for t in range(T)], dtype=object)
        eg.weights_ = pd.Series(list(w), index=list(range(T)), dtype=object if any(core.is_sym(x) for x in w) else float)
        eg.predictors_ = eg._hs
        eg.best_gap_ = 0.0
        return eg

    def run():
        w = [real(f"w{t}", 0, 1) for t in range(T)]
        core.cur().assume(core.zsum([term(x) for x in w]) == 1)
        tables = [[integer(f"h{t}_{i}", 0, 1) for i in range(3)] for t in range(T)]
        eg = build(w, tables)
        X = np.array([[0], [1]])
        first = np.asarray(eg._pmf_predict(X), dtype=object)
        X[0, 0] = 2  # what-if edit of the same object
        second = np.asarray(eg._pmf_predict(X), dtype=object)
        fresh = np.asarray(eg._pmf_predict(np.array([[2], [1]])), dtype=object)
        return w, tables, first, second, fresh

    def on_ok(ctx, out):
        w, tables, first, second, fresh = out
        acc.reach(ctx)
        mix = lambda rid: core.zsum([term(w[t]) * term(tables[t][rid]) for t in range(T)])
        acc.check_all(ctx, [
            ("pmf_is_weights_mixture_by_label", z3.And(term(first[0, 1]) == mix(0), term(first[1, 1]) == mix(1)), "eg:inplace:first"),
            ("pmf_follows_current_contents_of_X", z3.And(term(second[0, 1]) == mix(2), term(second[1, 1]) == mix(1)), "eg:inplace:second"),
            ("pmf_same_for_equal_contents", z3.And(term(second[0, 1]) == term(fresh[0, 1]), term(second[1, 1]) == term(fresh[1, 1])), "eg:inplace:copy")])
        acc.canary(ctx, "canary_inplace", term(second[0, 1]) == mix(2) + 1)

    acc.explore(run, on_ok, deadline=deadline, max_paths=500)


def _thr_state(job, mk):
    from fairlearn.postprocessing._interpolated_thresholder import InterpolatedThresholder
    from fairlearn.postprocessing._threshold_operation import ThresholdOperation

    ops = job["ops"]
    d = {}
    for gi, g in enumerate(("ga", "gb")):
        p0 = mk(f"p0{g}", 0, 1)
        b = dict(p0=p0, operation0=ThresholdOperation(ops[2 * gi], mk(f"t0{g}", None, None)), p1=1 - p0,
                 operation1=ThresholdOperation(ops[2 * gi + 1], mk(f"t1{g}", None, None)))
        if job["ignore"]:
            b["p_ignore"] = mk(f"pi{g}", 0, 1)
            b["prediction_constant"] = mk("const", 0, 1)
        d[g] = Bunch(**b)
    return d


def _thr(acc, job, deadline):
    from fairlearn.postprocessing._interpolated_thresholder import InterpolatedThresholder

    rows = job["rows"]
    sf = (["ga", "ga", "gb", "gb"])[:rows] if rows == 4 else ["ga", "ga", "gb"]

    def run():
        mk = lambda name, lo, hi: real(name, lo, hi)
        d = _thr_state(job, mk)
        s = [real(f"s{i}", 0, 1) for i in range(rows)]
        if job.get("inf"):
            s[-1] = np.float64(math.inf * job["inf"])
        it = InterpolatedThresholder(tc.Scorer(s), d, prefit=True, predict_method="predict_proba").fit(None, None)
        X = np.arange(rows).reshape(-1, 1)
        try:
            pm = np.asarray(it._pmf_predict(X, sensitive_features=sf), dtype=object)
            lab = it.predict(X, sensitive_features=sf, random_state="SYM")
        except Exception as e:
            return e
        return s, pm, lab

    def on_ok(ctx, out):
        if isinstance(out, Exception):
            acc.exception_cex(ctx, out, signature="thr:exception")
            return
        s, pm, lab = out
        acc.reach(ctx)
        items = []
        for i in range(rows):
            if core.is_nan(pm[i, 0]) or core.is_nan(pm[i, 1]):
                items.append(("pmf_valid_distribution", z3.BoolVal(False), "thr:valid:nonfinite_score" if job.get("inf") and i == rows - 1 else "thr:valid"))
                continue
            items.append(("pmf_valid_distribution", z3.And(term(pm[i, 0]) + term(pm[i, 1]) == 1, term(pm[i, 1]) >= 0, term(pm[i, 1]) <= 1), "thr:valid"))
            items.append(("label_is_one_iff_u_le_p", (z3.Real(f"u{i}") <= term(pm[i, 1])) == z3.BoolVal(int(lab[i]) == 1), "thr:sampling"))
            items.append(("label_in_01", z3.BoolVal(int(lab[i]) in (0, 1)), "thr:labels"))
        # rows 0 and 1 share the group: probability is a function of (score, group) and, without flip, monotone in the score
        s0, s1 = term(s[0]), term(s[1])
        items.append(("depends_only_on_score_and_group", z3.Implies(s0 == s1, term(pm[0, 1]) == term(pm[1, 1])), "thr:function_of_score_group"))
        if job["ops"][0] == ">" and job["ops"][1] == ">":
            items.append(("monotone_in_score_without_flip", z3.Implies(s0 <= s1, term(pm[0, 1]) <= term(pm[1, 1])), "thr:monotone"))
        acc.check_all(ctx, items)
        acc.canary(ctx, "canary_thr", z3.Real("u0") > term(pm[0, 1]) + 2)

    acc.explore(run, on_ok, deadline=deadline, max_paths=6000 if job["rows"] == 4 else 1200)


def _mixed_state(job, mk):
    """the state a real fit reaches from sensitive_features=[1, 'a', 1, 'a', ...]: numpy turns the mixed list into strings, the rules are keyed '1' and 'a'"""
    d = _thr_state(job, mk)
    return {"1": d["ga"], "a": d["gb"]}


def _thr_mixed(acc, job, deadline):
    """the probability of a row depends only on its score and group: the SAME row (score s0, group 1) queried next to a row of group 'a' and next
    to another row of group 1 must get the same probability"""
    from fairlearn.postprocessing._interpolated_thresholder import InterpolatedThresholder

    def run():
        d = _mixed_state(job, lambda name, lo, hi: real(name, lo, hi))
        s = [real(f"s{i}", 0, 1) for i in range(2)]
        it = InterpolatedThresholder(tc.Scorer(s), d, prefit=True, predict_method="predict_proba").fit(None, None)
        X = np.arange(2).reshape(-1, 1)
        try:
            a = np.asarray(it._pmf_predict(X, sensitive_features=[1, "a"]), dtype=object)
            b = np.asarray(it._pmf_predict(X, sensitive_features=[1, 1]), dtype=object)
        except Exception as e:
            return e
        return s, a, b

    def on_ok(ctx, out):
        if isinstance(out, Exception):
            acc.exception_cex(ctx, out, signature="thr:mixed_label_types:exception")
            return
        s, a, b = out
        acc.reach(ctx)
        acc.check(ctx, "probability_of_a_row_independent_of_the_other_rows_in_the_batch", O.same(a[0, 1], b[0, 1]), signature="thr:mixed_label_types")
        acc.canary(ctx, "canary_thrmixed", O.same(a[0, 1], term(a[0, 1]) + 2))

    acc.explore(run, on_ok, deadline=deadline, max_paths=600)


def _seeds(acc, job):
    """real RNG: same integer seed -> identical predictions, fitted state untouched (seeds sampled, not quantified)"""
    rnd = random.Random(job["seed"])
    bad = []
    n = 6
    X = np.arange(n).reshape(-1, 1)
    boundary = [0, 1]  # 0 is falsy: must still be a fixed seed
    for k in range(job["nseeds"] + len(boundary)):
        seed = boundary[k] if k < len(boundary) else rnd.randint(0, 2 ** 31 - 1)
        w = [0.5, 0.25, 0.25]
        outs = [[float((i + t) % 2) for i in range(n)] for t in range(3)]
        eg = _mk_eg("classification", 3, [0, 2, 1], w, outs, n)
        a, b = eg.predict(X, random_state=seed), eg.predict(X, random_state=seed)
        if not np.array_equal(a, b):
            bad.append(f"EG classification seed {seed}")
        egr = _mk_eg("regression", 3, [0, 1, 2], w, [[float(10 * (t + 1) + i) for i in range(n)] for t in range(3)], n)
        a, b = egr.predict(X, random_state=seed), egr.predict(X, random_state=seed)
        if not np.array_equal(a, b):
            bad.append(f"EG regression seed {seed}")
        y, g = [1, 0, 1, 0, 1, 0], [0, 0, 0, 1, 1, 1]
        sf = [tc.GROUPS[v] for v in g]
        # a fitted rule that really randomises (fractional probabilities on several rows); the process-wide numpy generator is put into a
        # different state before every call, so that draws taken from it instead of the seeded generator cannot agree by accident
        to = None
        for scores, gs in (([0.1, 0.7, 0.4, 0.9, 0.3, 0.6], 4), ([0.2, 0.8, 0.5, 0.3, 0.9, 0.6], 10), ([0.6, 0.1, 0.8, 0.7, 0.2, 0.4], 10), ([0.3, 0.2, 0.9, 0.8, 0.1, 0.5], 7)):
            cand, pm = tc.fit_concrete(("demographic_parity", "accuracy_score", False), y, g, gs, scores)
            if sum(1 for v in pm[:, 1] if 0.05 < v < 0.95) >= 3:
                to = cand
                break
        if to is None:
            bad.append("harness: no randomising ThresholdOptimizer rule among the candidates")
            continue
        outs_to = []
        for rep in range(4):
            np.random.seed(1000 + rep)
            outs_to.append(np.asarray(to.predict(X, sensitive_features=sf, random_state=seed)))
        if not all(np.array_equal(outs_to[0], o) for o in outs_to[1:]):
            bad.append(f"ThresholdOptimizer seed {seed}: repeated predict with the same random_state gives {[o.tolist() for o in outs_to]}")
    acc.r["obligations"] += 1
    acc.r["paths"] += 1
    acc.r["paths_with_obligations"] += 1
    acc.r["ob_names"]["same_seed_same_predictions_real_rng"] = 1
    if bad:
        acc.r["sat"] += 1
        acc.r["cex"].append({"obligation": "same_seed_same_predictions_real_rng", "signature": "seeds", "job": job, "model": {}, "extra": {"bad": bad}})
    else:
        acc.r["discharged"] += 1
    acc.r["canaries"] += 1
    acc.r["canaries_fired"] += 1


# ---- replay ------------------------------------------------------------------------------------------
def replay(cex):
    job, mdl = cex["job"], cex["model"]
    f = lambda k, d="0": float(F(mdl.get(k, d)))
    if job["kind"] == "seeds":
        acc = JobAcc(job)
        _seeds(acc, job)
        return {"reproduced": acc.r["sat"] > 0, "detail": str(acc.r["cex"][:1])}
    if job["kind"] == "eginplace":
        import fairlearn.reductions as red
        from fairlearn.reductions._exponentiated_gradient._lagrangian import _PredictorAsCallable

        T = job["T"]
        w = [f(f"w{t}") for t in range(T)]
        tot = sum(w) or 1.0
        w = [x / tot for x in w]
        tables = [[float(int(F(mdl.get(f"h{t}_{i}", "0")))) for i in range(3)] for t in range(T)]
        eg = red.ExponentiatedGradient(estimator=None, constraints=red.DemographicParity())
        eg._hs = pd.Series([_PredictorAsCallable(_RowModel(tables[t])) for t in range(T)], dtype=object)
        eg.weights_ = pd.Series(w, index=list(range(T)))
        eg.predictors_ = eg._hs
        X = np.array([[0], [1]])
        first = np.asarray(eg._pmf_predict(X), dtype=float)
        X[0, 0] = 2
        second = np.asarray(eg._pmf_predict(X), dtype=float)
        mix = lambda rid: sum(w[t] * tables[t][rid] for t in range(T))
        bad = []
        if abs(second[0, 1] - mix(2)) > 1e-9:
            bad.append(f"after editing X in place the reported P1 of row 0 is {second[0, 1]} but the mixture for its current contents is {mix(2)} (stale {mix(0)})")
        if abs(first[0, 1] - mix(0)) > 1e-9:
            bad.append("first query wrong")
        return {"reproduced": bool(bad), "detail": "; ".join(bad) + f" | weights {w} tables {tables}"}
    if job["kind"] == "eg":
        mode, T, perm, n = job["mode"], job["T"], job["perm"], job["n"]
        X = np.arange(n).reshape(-1, 1)
        w = [f(f"w{t}") for t in range(T)]
        tot = sum(w) or 1.0
        w = [x / tot for x in w]
        if mode == "classification":
            outs = [[float(int(F(mdl.get(f"h{t}_{i}", "0")))) for i in range(n)] for t in range(T)]
            eg = _mk_eg(mode, T, perm, w, outs, n)
            pm = np.asarray(eg._pmf_predict(X), dtype=float)
            bad = []
            for i in range(n):
                mix = sum(w[t] * outs[t][i] for t in range(T))
                if abs(pm[i, 1] - mix) > 1e-9 or abs(pm[i, 0] + pm[i, 1] - 1) > 1e-9:
                    bad.append(f"row {i}: pmf {pm[i].tolist()} but mixture {mix}")
            freq = np.mean([eg.predict(X, random_state=s) for s in range(4000)], axis=0)
            for i in range(n):
                if abs(freq[i] - pm[i, 1]) > 0.05:
                    bad.append(f"row {i}: empirical frequency {freq[i]:.3f} over 4000 seeds vs reported {pm[i, 1]:.3f}")
            return {"reproduced": bool(bad), "detail": "; ".join(bad) + f" | weights_={dict(zip(perm, [w[t] for t in perm]))}"}
        outs = [[float(10 * (t + 1) + i) for i in range(n)] for t in range(T)]
        eg = _mk_eg(mode, T, perm, w, outs, n)
        draws = np.array([eg.predict(X, random_state=s) for s in range(4000)])
        bad = []
        for i in range(n):
            for t in range(T):
                fr = float(np.mean(draws[:, i] == outs[t][i]))
                if abs(fr - w[t]) > 0.05:
                    bad.append(f"row {i}: predictor {t}'s value drawn with frequency {fr:.3f} over 4000 seeds, its weight is {w[t]:.3f}")
            fz = float(np.mean(draws[:, i] == 0.0))
            if fz > 0.02:
                bad.append(f"row {i}: value 0.0 of a zero-filled column drawn with frequency {fz:.3f}")
        order = "sorted" if perm == sorted(perm) else "unsorted"
        return {"reproduced": bool(bad), "signature": f"eg:regression:choice_mass:index_{order}",
                "detail": "; ".join(bad)[:500] + f" | weights_ index order {perm}, weights by label {w}"}
    # thresholder
    from fairlearn.postprocessing._interpolated_thresholder import InterpolatedThresholder

    if job["kind"] == "thrmixed":
        d = _mixed_state(job, lambda name, lo, hi: f(name))
        s = [f(f"s{i}") for i in range(2)]
        it = InterpolatedThresholder(tc.Scorer(s), d, prefit=True, predict_method="predict_proba").fit(None, None)
        X = np.arange(2).reshape(-1, 1)
        a = np.asarray(it._pmf_predict(X, sensitive_features=[1, "a"]), dtype=float)
        b = np.asarray(it._pmf_predict(X, sensitive_features=[1, 1]), dtype=float)
        bad = abs(a[0, 1] - b[0, 1]) > 1e-9
        return {"reproduced": bool(bad), "signature": "thr:mixed_label_types",
                "detail": f"row 0 (score {s[0]}, group 1) gets P(1)={a[0, 1]} when queried with sensitive_features=[1, 'a'] but {b[0, 1]} with [1, 1] "
                          f"(rules keyed by the strings '1' and 'a', as a fit on a mixed-type label list produces) | state={ {k: mdl[k] for k in mdl} }"}
    rows = job["rows"]
    sf = (["ga", "ga", "gb", "gb"])[:rows] if rows == 4 else ["ga", "ga", "gb"]
    d = _thr_state(job, lambda name, lo, hi: f(name))
    s = [f(f"s{i}") for i in range(rows)]
    if job.get("inf"):
        s[-1] = math.inf * job["inf"]
    it = InterpolatedThresholder(tc.Scorer(s), d, prefit=True, predict_method="predict_proba").fit(None, None)
    X = np.arange(rows).reshape(-1, 1)
    pm = np.asarray(it._pmf_predict(X, sensitive_features=sf), dtype=float)
    bad = []
    for i in range(rows):
        if math.isnan(pm[i, 1]) or not (-1e-12 <= pm[i, 1] <= 1 + 1e-12) or abs(pm[i, 0] + pm[i, 1] - 1) > 1e-9:
            bad.append(f"row {i}: invalid distribution {pm[i].tolist()}")
    if s[0] == s[1] and abs(pm[0, 1] - pm[1, 1]) > 1e-12:
        bad.append("equal score and group, different probability")
    if job["ops"][0] == ">" and job["ops"][1] == ">" and s[0] <= s[1] and pm[0, 1] > pm[1, 1] + 1e-12:
        bad.append(f"not monotone: P({s[0]})={pm[0, 1]} > P({s[1]})={pm[1, 1]}")
    freq = np.mean([it.predict(X, sensitive_features=sf, random_state=k) for k in range(3000)], axis=0)
    for i in range(rows):
        if abs(freq[i] - min(max(pm[i, 1], 0), 1)) > 0.05:
            bad.append(f"row {i}: empirical frequency {freq[i]:.3f} vs reported {pm[i, 1]:.3f}")
    return {"reproduced": bool(bad), "detail": "; ".join(bad)[:600] + f" | scores={s} state={ {k: mdl[k] for k in mdl if not k.startswith('u')} }"}
