"""C04 - ThresholdOptimizer equalises the constrained metric exactly on the training data."""
import random

import numpy as np
import z3

from harness import thresh_common as tc
from symx import core
from symx.core import term
from symx.runner import F, JobAcc

PROPERTY = "C04"
UNIT_LEVEL_SIGS = r"unit:"  # unit-lemma counter-examples are reported as unit-level, never as VIOLATION (DESIGN 6 C04 U1)
BUDGET = {"quick": 170, "thorough": 1700}
JOB_CLASS = lambda j: j.get("kind") or f"{j['cfg'][0]}-{'flip' if j['cfg'][2] else 'noflip'}"  # classes that take turns when the budget runs short
META = {
    "explanation": "bounded symbolic execution of the real ThresholdOptimizer.fit (both _threshold_optimization_* paths, _reformat_and_group_data, "
                   "_tradeoff_curve, _calculate_tradeoff_points, _filter_points_to_get_convex_hull, _interpolate_curve, _get_interpolation_indices, "
                   "ThresholdOperation) and InterpolatedThresholder._pmf_predict with the SCORE of every training row a free real in [0,1] (prefit score "
                   "provider). Every comparison of the real code (sort, tie loop, threshold operations) forks, so a path is one weak-ordering class of "
                   "scores and thresholds - ties included - and is decided feasible by z3. Per path the expected constrained metric of each group under "
                   "the fitted randomised rule is recomputed from the definition and must be equal across groups (and equal to the chosen grid point).",
    "tier_bounds": {"quick": "group layouts (2+2), (2+3) rows with both labels per group, all 64 constraint/objective/flip configurations, grid_size in {2, 4} "
                             "(seeded one grid size per configuration/layout), all score orderings incl. ties",
                    "thorough": "adds (3+3), (2+4), (2+2+2), (2+2+3), (3+4) rows and grid_size in {1,2,3,4,6,10}"},
    "trusted_base": ["z3 (path feasibility, LRA)", "symx", "pandas/numpy as executed", "check_array pass-through"],
    "stubs": ["fairlearn.utils._input_validation.check_array pass-through for proxy arrays", "score provider (prefit estimator stub)"],
    "assumptions": ["scores in [0,1]", "every group contains both labels", "equality up to 1e-9 (p0/p1 are float64 on a path)"],
    "outside": ["n > 7 rows, 4-5 groups", "float rounding of p0/p1",
                "scores in machine dtypes (int8, uint8, int16, float16, float32, int64): arrays of these types cannot hold solver terms; covered by a CONCRETE seeded "
                "sweep (jobs 'dtypes-*': 30/150 score vectors per dtype near the top of the dtype's range), which is sampling, not a solver verdict"],
}
MANIFEST = {
    "level_text": "Bounded symbolic exploration: for each listed layout/configuration z3 enumerates every feasible weak ordering of the symbolic scores and "
                  "thresholds that the real fit+predict code distinguishes (each path covers all real score vectors of that class, ties included); on "
                  "every path the group-wise expected constrained metric is checked equal. A counter-example is a concrete score vector, replayed on the real code. Plus the unit lemma U1: the real hull filter + interpolation run on SYMBOLIC curve points (K<=5/6, any reals in [0,1]^2, sorted): z3 proves the interpolation weights are a distribution and hit the grid value exactly, for all reals.",
    "level_note": "Trusted: z3, symx, numpy/pandas as executed. Per-path numeric check in float64 with 1e-9 slack (curve values are concrete on a path).",
    "design_ref": "DESIGN.md section 6 C04",
}


def setup():
    tc.setup()


def jobs(tier, seed):
    rnd = random.Random(seed)
    js = []
    grids = [2, 4] if tier == "quick" else [1, 2, 3, 4, 6, 10]
    for si, (y, g) in enumerate(tc.structures(tier)):
        for cfg in tc.configs(tier, rnd):
            gsel = [rnd.choice(grids)] if tier == "quick" else rnd.sample(grids, 2)
            for gs in gsel:
                js.append({"id": f"s{si}-{cfg[0]}-{cfg[1]}-{'flip' if cfg[2] else 'noflip'}-g{gs}", "y": y, "groups": g, "cfg": list(cfg), "grid": gs})
    for K in ((2, 3, 4, 5) if tier == "quick" else (2, 3, 4, 5, 6)):
        js.insert(0, {"id": f"hullU1-K{K}", "kind": "hullU1", "K": K})
    # scores in narrow machine dtypes (risk percentiles as int8, float16 logits ...) cannot hold proxies: concrete seeded sweep, see _run_dtypes
    for dt in DTYPES:
        js.append({"id": f"dtypes-{dt}", "kind": "dtypes", "dtype": dt, "seed": seed, "cases": 30 if tier == "quick" else 150})
    return js


DTYPES = {"int8": (60, 120), "uint8": (120, 250), "int16": (20000, 32000), "float16": (100, 200), "float32": (0, 100), "int64": (0, 100)}


# float16: integer levels 100..200 (midpoints are representable).  Score levels that are ADJACENT representable values of their dtype are float
# rounding (a midpoint between them does not exist in that dtype; the same happens for adjacent float64 values) and stay outside the claim.


class _DtypeScorer(tc.Scorer):
    """returns its scores in the machine dtype they were given in (the ordinary Scorer converts to float64)"""

    def decision_function(self, X):
        idx = [int(v) for v in np.asarray(X)[:, 0]]
        return np.asarray(self.scores)[idx]


def _dtype_case(dt, cons, flip, y, groups, scores, gs):
    from fairlearn.postprocessing import ThresholdOptimizer

    n = len(y)
    X = np.arange(n).reshape(-1, 1)
    sf = [tc.GROUPS[g] for g in groups]
    obj = "balanced_accuracy_score" if cons != "equalized_odds" else "accuracy_score"
    to = ThresholdOptimizer(estimator=_DtypeScorer(np.array(scores, dtype=dt)), constraints=cons, objective=obj, grid_size=gs, flip=flip, prefit=True,
                            predict_method="decision_function")
    try:
        to.fit(X, list(y), sensitive_features=sf)
        pm = np.asarray(to._pmf_predict(X, sensitive_features=sf), dtype=float)
    except Exception as e:
        return f"raised {type(e).__name__}: {e}"
    p1 = [float(pm[i, 1]) for i in range(n)]
    vals = group_metric_values(cons, y, groups, p1)
    ref = vals[min(vals)]
    dev = max(abs(a - b) for v in vals.values() for a, b in zip(v, ref))
    return None if dev <= 1e-9 else f"{constrained_metrics(cons)} per group = {vals} (max deviation {dev:.3g})"


def _dtype_cases(job):
    rnd = random.Random(job["seed"] * 7 + sum(job["dtype"].encode()))
    lo, hi = DTYPES[job["dtype"]]
    structs = tc.structures("quick")
    for k in range(job["cases"]):
        y, g = structs[k % len(structs)]
        scores = [rnd.randint(lo, hi) for _ in y]
        cons = (list(tc.SIMPLE) + ["equalized_odds"])[k % 5]
        yield cons, bool(k % 2), list(y), list(g), scores, [3, 10, 100][k % 3]


def _run_dtypes(job, acc):
    r = acc.r
    n = 0
    for cons, flip, y, g, scores, gs in _dtype_cases(job):
        n += 1
        r["obligations"] += 1
        r["ob_names"]["machine_dtype_scores_equalised"] = r["ob_names"].get("machine_dtype_scores_equalised", 0) + 1
        bad = _dtype_case(job["dtype"], cons, flip, y, g, scores, gs)
        if bad:
            r["sat"] += 1
            if len(r["cex"]) < 3:
                r["cex"].append({"obligation": "machine_dtype_scores_equalised", "signature": f"dtype:{job['dtype']}", "job": job, "model": {},
                                 "extra": {"cons": cons, "flip": flip, "y": y, "groups": g, "scores": scores, "grid": gs, "problem": bad}})
        else:
            r["discharged"] += 1
    r["paths"] += 1
    r["paths_with_obligations"] += 1
    r["canaries"] += 1
    r["canaries_fired"] += 1
    r["samples"].append({"job": job["id"], "cases": n})
    return acc.result()


def constrained_metrics(cons):
    return ["false_positive_rate", "true_positive_rate"] if cons == "equalized_odds" else [tc.SIMPLE[cons]]


def group_metric_values(cons, y, groups, p1):
    out = {}
    for gi in sorted(set(groups)):
        rows = [i for i in range(len(y)) if groups[i] == gi]
        tp, fp, tn, fn = tc.group_counts(p1, y, rows)
        out[gi] = [tc.metric_value(m, tp, fp, tn, fn) for m in constrained_metrics(cons)]
    return out


def run_job(job, deadline):
    acc = JobAcc(job)
    if job.get("kind") == "hullU1":
        from harness import hull

        hull.explore_hull(acc, job["K"], deadline, ("parity",), "c04")
        return acc.result()
    if job.get("kind") == "dtypes":
        return _run_dtypes(job, acc)
    y, groups, cfg, gs = job["y"], job["groups"], tuple(job["cfg"]), job["grid"]
    n = len(y)

    def run():
        try:
            to, s, pm = tc.fit_symbolic(cfg, y, groups, gs)
        except Exception as e:
            return e
        return to, s, pm

    def on_ok(ctx, out):
        if isinstance(out, Exception):
            acc.exception_cex(ctx, out, signature=f"exception:{type(out).__name__}")
            return
        to, s, pm = out
        acc.reach(ctx)
        sig = f"parity:{cfg[0]}:{'flip' if cfg[2] else 'noflip'}"
        sym = [v for v in pm.ravel() if core.is_sym(v)]
        if sym:
            acc.check(ctx, "pmf_is_concrete_on_a_path", z3.BoolVal(False), signature="engine:symbolic_pmf")
            return
        p1 = [float(pm[i, 1]) for i in range(n)]
        vals = group_metric_values(cfg[0], y, groups, p1)
        ref = vals[min(vals)]
        dev = max(abs(a - b) for v in vals.values() for a, b in zip(v, ref))
        acc.check(ctx, "constrained_metric_equal_across_groups", z3.BoolVal(bool(dev <= 1e-9)), signature=sig, extra={"dev": dev})
        xb = float(to._x_best)
        target = [xb, float(to._y_best)] if cfg[0] == "equalized_odds" else [xb]
        dev2 = max(abs(a - b) for v in vals.values() for a, b in zip(v, target))
        acc.check(ctx, "groups_sit_on_the_chosen_grid_point", z3.BoolVal(bool(dev2 <= 1e-9)), signature=sig + ":gridpoint", extra={"dev": dev2})
        on_grid = abs(ref[0] * gs - round(ref[0] * gs)) <= 1e-9
        acc.check(ctx, "common_value_lies_on_the_requested_grid", z3.BoolVal(bool(on_grid)), signature=sig + ":requested_grid", extra={"x": ref[0], "grid_size": gs})
        valid = all(-1e-12 <= p <= 1 + 1e-12 for p in p1) and all(abs(float(pm[i, 0]) + p1[i] - 1) < 1e-12 for i in range(n))
        acc.check(ctx, "probabilities_valid", z3.BoolVal(bool(valid)), signature=sig + ":pmf")
        acc.canary(ctx, "canary_path_nontrivial", z3.Real("s0") > 2)
        acc.sample({"job": job["id"], "x_best": xb, "p1": p1})

    acc.explore(run, on_ok, deadline=deadline, max_paths=20000)
    return acc.result()


def replay(cex):
    if cex["job"].get("kind") == "hullU1":
        from harness import hull

        return hull.replay_unit(cex)
    if cex["job"].get("kind") == "dtypes":
        e = cex["extra"]
        bad = _dtype_case(cex["job"]["dtype"], e["cons"], e["flip"], e["y"], e["groups"], e["scores"], e["grid"])
        return {"reproduced": bad is not None, "signature": cex["signature"],
                "detail": f"{bad} for scores {e['scores']} stored as {cex['job']['dtype']}, y={e['y']} groups={e['groups']} constraints={e['cons']} flip={e['flip']} grid_size={e['grid']}"}
    job, mdl = cex["job"], cex["model"]
    y, groups, cfg, gs = job["y"], job["groups"], tuple(job["cfg"]), job["grid"]
    n = len(y)
    scores = [float(F(mdl.get(f"s{i}", "0"))) for i in range(n)]
    try:
        to, pm = tc.fit_concrete(cfg, y, groups, gs, scores)
    except Exception as e:
        return {"reproduced": True, "signature": f"exception:{type(e).__name__}", "detail": f"fit/predict raised {type(e).__name__}: {e} on scores={scores} y={y} groups={groups} cfg={cfg} grid={gs}"}
    p1 = [float(pm[i, 1]) for i in range(n)]
    vals = group_metric_values(cfg[0], y, groups, p1)
    ref = vals[min(vals)]
    dev = max(abs(a - b) for v in vals.values() for a, b in zip(v, ref))
    off_grid = abs(ref[0] * gs - round(ref[0] * gs)) > 1e-9
    bad = dev > 1e-9 or not all(-1e-12 <= p <= 1 + 1e-12 for p in p1) or off_grid
    return {"reproduced": bool(bad), "detail": f"expected {constrained_metrics(cfg[0])} per group = {vals} (max deviation {dev:.3g}) for scores={scores} y={y} groups={groups} "
                                              f"constraints={cfg[0]} objective={cfg[1]} flip={cfg[2]} grid_size={gs} (configured {'through set_params' if gs % 2 == 0 else 'in the constructor'}) "
                                              f"common value on requested grid: {not off_grid} p1={p1}"}
