"""C17 - adversarial fit is the documented step schedule; predict stays in label space."""
import itertools
import random

import numpy as np
import z3

from symx import core, oracle as O
from symx.core import SInt, SReal, integer, real, term
from symx.runner import F, JobAcc

PROPERTY = "C17"
BUDGET = {"quick": 170, "thorough": 1500}
META = {
    "explanation": "bounded symbolic execution of the real AdversarialFairnessClassifier/Regressor fit / partial_fit / _validate_input / __setup / predict / "
                   "_raw_predict / predictor functions / FloatTransformer.inverse_transform with a recording BackendEngine subclass passed as backend= (the "
                   "supported extension point). Symbolic: batch_size and max_iter (integers in {-1} U [1, inf), UNBOUNDED - behaviours collapse into finitely "
                   "many path classes), the step at which a callback first returns True; for predict: the raw model outputs. z3 decides per path: number "
                   "of train_step calls == min(epochs*ceil(n/b), max_iter, stop step); the i-th call gets rows [(i mod B)*b, min(((i mod B)+1)*b, n)) of "
                   "X, y, A jointly; callbacks see steps 1,2,.. once each, not after a step that exhausts max_iter; n_iter_; fit == the same slices issued "
                   "through partial_fit (same batch sequence) when the first slice contains every class; predict: positive class <=> output >= 0.5, first "
                   "arg-max class, raw output for regression, always a member of the training label set.",
    "tier_bounds": {"quick": "n in {3,4,5} rows, epochs in {1,2,-1}, 1-2 callbacks, batch_size/max_iter symbolic unbounded (max_iter <= 2n+1 when epochs=-1); predict: 2 rows, binary (int and string "
                             "labels), 3-class, regression",
                    "thorough": "n up to 7, epochs up to 3"},
    "trusted_base": ["z3 (LIA)", "symx", "recording backend (records train_step arguments)", "sklearn validation / encoders as executed on concrete data"],
    "stubs": ["check_scalar in _adversarial_mitigation expressed on proxies", "recording BackendEngine", "evaluate() returns symbolic outputs"],
    "assumptions": ["shuffle=False", "data concrete (the schedule does not depend on values)", "threshold_value=0.5 default"],
    "outside": ["real torch/tf models (the model is a deterministic fold of the batch sequence)", "shuffle=True", "warm_start (C19)"],
}
MANIFEST = {
    "level_text": "Bounded symbolic verification of the schedule with UNBOUNDED integer parameters: z3 partitions all (batch_size, max_iter, stop step) "
                  "into the finitely many path classes the real fit loop distinguishes for each n/epochs, and proves the call count, slices, callback "
                  "steps and n_iter_ on each; predict is decided for all real model outputs.",
    "level_note": "Trusted: z3, symx, recording backend. n/epochs/callback count enumerated. Equality of fitted models is reduced to equality of the batch sequences fed to train_step.",
    "design_ref": "DESIGN.md section 6 C17",
}

LOG = []
EVAL = [None]
_orig = {}


def setup():
    import fairlearn.adversarial._adversarial_mitigation as am

    _orig["check_scalar"] = am.check_scalar

    def check_scalar(x, name, target_type, *, min_val=None, max_val=None, include_boundaries="both"):
        if not core.is_sym(x):
            return _orig["check_scalar"](x, name, target_type, min_val=min_val, max_val=max_val, include_boundaries=include_boundaries)
        if min_val is not None:
            if (include_boundaries in ("left", "both") and x < min_val) or (include_boundaries in ("right", "neither") and x <= min_val):
                raise ValueError(f"{name} == {x}, must be >= {min_val}.")
        if max_val is not None and x > max_val:
            raise ValueError(f"{name} must be <= {max_val}.")
        return x

    am.check_scalar = check_scalar


def _engine():
    from fairlearn.adversarial._backend_engine import BackendEngine

    class Eng(BackendEngine):
        model_class = type("M", (), {})
        optim_class = type("O", (), {})

        def __init__(self, base, X, Y, A):
            LOG.append(("init",))
            super().__init__(base, X, Y, A)

        def get_model(self, list_nodes):
            return object()

        def get_loss(self, t):
            return object()

        def get_optimizer(self, p, m):
            return object()

        def train_step(self, X, Y, A):
            LOG.append(("step", [int(v) for v in np.asarray(X)[:, 0]], np.asarray(Y, dtype=float).reshape(-1).round(6).tolist(),
                        np.asarray(A, dtype=float).reshape(-1).round(6).tolist()))
            return (0.0, 0.0)

        def evaluate(self, X):
            return EVAL[0] if EVAL[0] is not None else np.zeros((len(X), 1))

    return Eng


def jobs(tier, seed):
    js = []
    ns = (3, 4, 5) if tier == "quick" else (3, 4, 5, 6, 7)
    for n in ns:
        for epochs in ((1, 2, -1) if tier == "quick" else (1, 2, 3, -1)):
            for ncb in (1, 2):
                js.append({"id": f"sched-n{n}-e{epochs}-cb{ncb}", "kind": "sched", "n": n, "epochs": epochs, "ncb": ncb})
    for n in ns[:2] if tier == "quick" else ns:
        for prior in ("warm", "cold"):
            js.append({"id": f"sched-n{n}-e2-cb1-prior{prior}", "kind": "sched", "n": n, "epochs": 2, "ncb": 1, "prior": prior})
    for enc in ("bin-int", "bin-str", "multi", "multi-str", "reg"):
        js.append({"id": f"predict-{enc}", "kind": "predict", "enc": enc})
    return js


def _configured(job, Eng, bs, epochs, mi, callbacks, old_calls, data):
    """the estimator under test, configured in the constructor, through set_params, or - 'prior' jobs - an estimator that was already fitted
    once under ANOTHER configuration (own callback, batch_size 1, one epoch; warm_start on or off) and then re-configured through set_params"""
    from fairlearn.adversarial import AdversarialFairnessClassifier

    n, ncb = job["n"], job["ncb"]
    cb_param = callbacks if ncb > 1 else callbacks[0]
    prior = job.get("prior")
    if prior:
        def old_cb(est, step, **kw):
            old_calls.append(step)
            return False

        est = AdversarialFairnessClassifier(backend=Eng, predictor_model=[], adversary_model=[], batch_size=1, epochs=1, callbacks=old_cb, shuffle=False,
                                            random_state=0, warm_start=(prior == "warm"))
        X, y, A = data
        est.fit(X, y, sensitive_features=A)
        del LOG[:]
        del old_calls[:]
        est.set_params(batch_size=bs, epochs=epochs, callbacks=cb_param)
    elif n % 2:
        est = AdversarialFairnessClassifier(backend=Eng, predictor_model=[], adversary_model=[], batch_size=bs, epochs=epochs,
                                            callbacks=cb_param, shuffle=False, random_state=0)
    else:  # configured through set_params after construction
        est = AdversarialFairnessClassifier(backend=Eng, predictor_model=[], adversary_model=[], shuffle=False, random_state=0)
        est.set_params(batch_size=bs, epochs=epochs, callbacks=cb_param)
    est.max_iter = mi  # not a constructor argument of the public classes: set like a parameter (set_params is not available for it)
    return est


def _data(n):
    X = np.arange(n, dtype=float).reshape(-1, 1)
    y = np.array([i % 2 for i in range(n)])
    A = np.array([(i // 2) % 2 for i in range(n)])
    return X, y, A


def run_job(job, deadline):
    acc = JobAcc(job)
    if job["kind"] == "sched":
        _sched(acc, job, deadline)
    else:
        _predict(acc, job, deadline)
    return acc.result()


def _sched(acc, job, deadline):
    from fairlearn.adversarial import AdversarialFairnessClassifier

    n, epochs, ncb = job["n"], job["epochs"], job["ncb"]
    X, y, A = _data(n)
    Eng = _engine()

    def run():
        del LOG[:]
        bs = integer("bs", -1)
        mi = integer("mi", -1)
        stop = integer("stop", 1)
        c = core.cur()
        c.assume(bs.e != 0)
        c.assume(mi.e != 0)
        if epochs == -1:
            c.assume(mi.e >= 1)
            c.assume(mi.e <= 2 * n + 1)  # epochs=-1: the number of epochs is ceil(max_iter/batches); bounded here, stated in the evidence
        cbs = []
        old_calls = []

        def mk(k):
            def cb(est, step, **kw):
                cbs.append((k, step))
                return bool(step == stop) if k == 0 else False
            return cb

        callbacks = [mk(k) for k in range(ncb)]
        est = _configured(job, Eng, bs, epochs, mi, callbacks, old_calls, (X, y, A))
        try:
            ret = est.fit(X, y, sensitive_features=A)
        except Exception as e:
            return e
        steps = [e for e in LOG if e[0] == "step"]
        # the same slices through partial_fit on an identically configured estimator
        pf = None
        first_rows = steps[0][1] if steps else []
        if steps and set(y[first_rows]) == set(y) and set(A[first_rows]) == set(A):
            del LOG[:]
            est2 = AdversarialFairnessClassifier(backend=Eng, predictor_model=[], adversary_model=[], batch_size=bs, epochs=epochs,
                                                 shuffle=False, random_state=0)
            est2.max_iter = mi
            try:
                for st in steps:
                    rows = st[1]
                    est2.partial_fit(X[rows], y[rows], sensitive_features=A[rows])
                pf = [e for e in LOG if e[0] == "step"]
            except Exception as e:
                pf = e
        return bs, mi, stop, steps, list(cbs), est.n_iter_, ret is est, pf, list(old_calls)

    def on_ok(ctx, out):
        if isinstance(out, Exception):
            acc.exception_cex(ctx, out, signature=f"sched:exception:{type(out).__name__}")
            return
        bs, mi, stop, steps, cbs, n_iter, ret_self, pf, old_calls = out
        acc.reach(ctx)
        b = z3.If(bs.e == -1, z3.IntVal(n), bs.e)
        # B = ceil(n / b) for b >= 1: the unique k in 1..n with (k-1)*b < n <= k*b
        Bk = lambda k: z3.And((k - 1) * b < n, n <= k * b)
        B = z3.Sum([z3.If(Bk(k), z3.IntVal(k), z3.IntVal(0)) for k in range(1, n + 1)])
        if epochs == -1:
            # epochs' = ceil(max_iter / B): total = B * ceil(mi / B)
            total = z3.Int("total_or")
            extra = [z3.Or([z3.And(B == k, total >= mi.e, total < mi.e + k, total % k == 0) for k in range(1, n + 1)])]
        else:
            total = epochs * B
            extra = []
        T = z3.If(z3.And(mi.e != -1, mi.e < total), mi.e, total)
        T = z3.If(stop.e < T, stop.e, T)
        Tn = len(steps)
        items = [("number_of_steps", T == Tn, "sched:count"), ("n_iter_equals_steps", z3.BoolVal(n_iter == Tn), "sched:n_iter"),
                 ("fit_returns_self", z3.BoolVal(bool(ret_self)), "sched:return")]
        # slices
        sl = []
        for i, st in enumerate(steps):
            rows = st[1]
            contiguous = rows == list(range(rows[0], rows[0] + len(rows))) if rows else False
            if not contiguous:
                sl.append(z3.BoolVal(False))
                continue
            lo, hi = rows[0], rows[-1] + 1
            joint = st[2] == np.asarray(_yt(y)[rows], dtype=float).round(6).tolist() and st[3] == np.asarray(_yt(A)[rows], dtype=float).round(6).tolist()
            sl.append(z3.And(z3.BoolVal(bool(joint)), z3.Or([z3.And(B == k, lo == (i % k) * b, hi == z3.If(((i % k) + 1) * b < n, ((i % k) + 1) * b, z3.IntVal(n)))
                                                              for k in range(1, n + 1)])))
        items.append(("ith_step_gets_the_ith_consecutive_slice_of_X_y_A", z3.And(sl) if sl else z3.BoolVal(True), "sched:slices"))
        # callbacks: every callback once per completed step, steps 1,2,..., none after the step that exhausts max_iter
        C = z3.If(z3.And(mi.e != -1, mi.e == Tn), Tn - 1, Tn)
        per_cb = {k: [s for (kk, s) in cbs if kk == k] for k in range(ncb)}
        shape_ok = all(per_cb[k] == list(range(1, len(per_cb[k]) + 1)) for k in range(ncb)) and len(set(len(v) for v in per_cb.values())) == 1
        items.append(("callbacks_see_steps_1_2_3_once_each", z3.BoolVal(bool(shape_ok)), "sched:callbacks:steps"))
        items.append(("no_callback_after_max_iter_exhausted", C == len(per_cb[0]), "sched:callbacks:count"))
        if job.get("prior"):
            items.append(("callback_replaced_through_set_params_is_not_invoked_any_more", z3.BoolVal(not old_calls), "sched:callbacks:stale", {"old_callback_calls": old_calls[:6]}))
        if pf is not None:
            same = (not isinstance(pf, Exception)) and [e[1:] for e in pf] == [e[1:] for e in steps]
            items.append(("partial_fit_sequence_feeds_identical_batches", z3.BoolVal(bool(same)), "sched:partial_fit", {"pf": repr(pf)[:200]}))
        acc.check_all(ctx, items, assumptions=extra)
        acc.canary(ctx, "canary_sched", T == Tn + 1)
        acc.sample({"job": job["id"], "pc": [str(c) for c in ctx.pc if any(v in str(c) for v in ("bs", "mi", "stop"))][-4:], "steps": [s[1] for s in steps][:6], "callbacks": cbs[:6]})

    acc.explore(run, on_ok, deadline=deadline, max_paths=4000)


def _yt(v):
    """binary 0/1 columns are encoded as themselves by the one-hot(drop=if_binary) transformer"""
    return np.asarray(v, dtype=float)


ENC = {
    "bin-int": (np.array([0, 1, 1, 0]), "binary"), "bin-str": (np.array(["no", "yes", "yes", "no"]), "binary"),
    "multi": (np.array([0, 1, 2, 1]), "multiclass"), "multi-str": (np.array(["a", "c", "b", "a"]), "multiclass"),
    "reg": (np.array([0.5, 1.25, -2.0, 3.0]), "continuous"),
}


def _predict(acc, job, deadline):
    from fairlearn.adversarial import AdversarialFairnessClassifier, AdversarialFairnessRegressor

    y, kind = ENC[job["enc"]]
    n = len(y)
    X, _, A = _data(n)
    Eng = _engine()
    classes = sorted(set(y.tolist()))
    k = 1 if kind in ("binary", "continuous") else len(classes)
    Xq = X[:2]

    def run():
        EVAL[0] = None
        cls = AdversarialFairnessRegressor if kind == "continuous" else AdversarialFairnessClassifier
        est = cls(backend=Eng, predictor_model=[], adversary_model=[], epochs=1, batch_size=-1, shuffle=False, random_state=0)
        est.fit(X, y, sensitive_features=A)
        out = np.array([[real(f"o{i}_{j}") for j in range(k)] for i in range(2)], dtype=object)
        EVAL[0] = out
        try:
            pred = est.predict(Xq)
        except Exception as e:
            return e
        finally:
            EVAL[0] = None
        return out, pred

    def on_ok(ctx, res):
        if isinstance(res, Exception):
            acc.exception_cex(ctx, res, signature=f"predict:{job['enc']}:exception")
            return
        out, pred = res
        acc.reach(ctx)
        sig = f"predict:{job['enc']}"
        pred = list(np.asarray(pred, dtype=object).reshape(-1)) if kind != "continuous" else list(np.asarray(pred, dtype=object).reshape(-1))
        items = [("one_prediction_per_row", z3.BoolVal(len(pred) == 2), sig + ":shape")]
        if len(pred) == 2:
            for i in range(2):
                if kind == "binary":
                    items.append(("member_of_training_labels", z3.BoolVal(pred[i] in classes), sig + ":labelset"))
                    items.append(("positive_class_iff_output_ge_half", (term(out[i, 0]) >= z3.RealVal("1/2")) == z3.BoolVal(pred[i] == classes[1]), sig + ":threshold"))
                elif kind == "multiclass":
                    items.append(("member_of_training_labels", z3.BoolVal(pred[i] in classes), sig + ":labelset"))
                    if pred[i] in classes:
                        c = classes.index(pred[i])
                        items.append(("argmax_class_first_maximum", z3.And([term(out[i, c]) >= term(out[i, j]) for j in range(k)] + [term(out[i, c]) > term(out[i, j]) for j in range(c)]),
                                      sig + ":argmax"))
                else:
                    items.append(("regression_returns_raw_output", O.same(pred[i], out[i, 0]), sig + ":raw"))
        acc.check_all(ctx, items)
        acc.canary(ctx, "canary_predict", term(out[0, 0]) > term(out[0, 0]) + 1 if False else term(out[0, 0]) == 7)

    acc.explore(run, on_ok, deadline=deadline, max_paths=500)


# ---- replay ------------------------------------------------------------------------------------------
def replay(cex):
    from fairlearn.adversarial import AdversarialFairnessClassifier, AdversarialFairnessRegressor
    import math

    job, mdl = cex["job"], cex["model"]
    Eng = _engine()
    if job["kind"] == "sched":
        n, epochs, ncb = job["n"], job["epochs"], job["ncb"]
        X, y, A = _data(n)
        bs, mi, stop = int(F(mdl.get("bs", "-1"))), int(F(mdl.get("mi", "-1"))), int(F(mdl.get("stop", "1000000")))
        del LOG[:]
        cbs = []
        old_calls = []

        def mk(k):
            def cb(est, step, **kw):
                cbs.append((k, step))
                return bool(step == stop) if k == 0 else False
            return cb

        callbacks = [mk(k) for k in range(ncb)]
        est = _configured(job, Eng, bs, epochs, mi, callbacks, old_calls, (X, y, A))
        try:
            ret = est.fit(X, y, sensitive_features=A)
        except Exception as e:
            return {"reproduced": True, "signature": f"sched:exception:{type(e).__name__}", "detail": f"fit raised {type(e).__name__}: {e} (batch_size={bs}, max_iter={mi}, epochs={epochs}, n={n})"}
        steps = [e for e in LOG if e[0] == "step"]
        b = n if bs == -1 else bs
        B = math.ceil(n / b)
        total = B * math.ceil(mi / B) if epochs == -1 else epochs * B
        T = total if mi == -1 else min(total, mi)
        T = min(T, stop)
        bad = []
        if len(steps) != T:
            bad.append(f"{len(steps)} steps, documented {T}")
        if est.n_iter_ != len(steps):
            bad.append(f"n_iter_={est.n_iter_} != steps {len(steps)}")
        for i, st in enumerate(steps):
            lo, hi = (i % B) * b, min(((i % B) + 1) * b, n)
            if st[1] != list(range(lo, hi)):
                bad.append(f"step {i} got rows {st[1]}, documented {list(range(lo, hi))}")
                break
            if st[2] != _yt(y)[st[1]].round(6).tolist() or st[3] != _yt(A)[st[1]].round(6).tolist():
                bad.append(f"step {i}: y/A rows not the rows of X")
                break
        C = len(steps) - 1 if (mi != -1 and len(steps) == mi) else len(steps)
        for k in range(ncb):
            got = [s for (kk, s) in cbs if kk == k]
            if got != list(range(1, C + 1)):
                bad.append(f"callback {k} saw steps {got}, documented {list(range(1, C + 1))}")
        if ret is not est:
            bad.append("fit did not return self")
        if old_calls:
            bad.append(f"the callback replaced through set_params before this fit was still invoked (steps {old_calls[:6]})")
        first_rows = steps[0][1] if steps else []
        if steps and set(y[first_rows]) == set(y) and set(A[first_rows]) == set(A):
            del LOG[:]
            est2 = AdversarialFairnessClassifier(backend=Eng, predictor_model=[], adversary_model=[], batch_size=bs, epochs=epochs, shuffle=False, random_state=0)
            est2.max_iter = mi
            try:
                for st in steps:
                    est2.partial_fit(X[st[1]], y[st[1]], sensitive_features=A[st[1]])
                pf = [e for e in LOG if e[0] == "step"]
                if [e[1:] for e in pf] != [e[1:] for e in steps]:
                    bad.append("partial_fit sequence fed different batches")
            except Exception as e:
                bad.append(f"partial_fit sequence raised {type(e).__name__}: {e}")
        return {"reproduced": bool(bad), "detail": "; ".join(bad)[:600] + f" | n={n} epochs={epochs} batch_size={bs} max_iter={mi} stop_at={stop} callbacks={ncb}" + (f" history: fitted before with batch_size=1, epochs=1, another callback, warm_start={job['prior'] == 'warm'}; then set_params" if job.get("prior") else "")}
    y, kind = ENC[job["enc"]]
    n = len(y)
    X, _, A = _data(n)
    classes = sorted(set(y.tolist()))
    k = 1 if kind in ("binary", "continuous") else len(classes)
    cls = AdversarialFairnessRegressor if kind == "continuous" else AdversarialFairnessClassifier
    est = cls(backend=Eng, predictor_model=[], adversary_model=[], epochs=1, batch_size=-1, shuffle=False, random_state=0)
    EVAL[0] = None
    est.fit(X, y, sensitive_features=A)
    out = np.array([[float(F(mdl.get(f"o{i}_{j}", "0"))) for j in range(k)] for i in range(2)])
    EVAL[0] = out
    try:
        pred = list(np.asarray(est.predict(X[:2])).reshape(-1))
    except Exception as e:
        return {"reproduced": True, "signature": f"predict:{job['enc']}:exception", "detail": f"predict raised {type(e).__name__}: {e}"}
    finally:
        EVAL[0] = None
    bad = []
    for i in range(2):
        if kind == "binary":
            want = classes[1] if out[i, 0] >= 0.5 else classes[0]
        elif kind == "multiclass":
            want = classes[int(np.argmax(out[i]))]
        else:
            want = out[i, 0]
        if pred[i] != want:
            bad.append(f"row {i}: output {out[i].tolist()} -> predicted {pred[i]!r}, documented {want!r}")
    return {"reproduced": bool(bad), "detail": "; ".join(bad)}
