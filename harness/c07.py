"""C07 - reduction identity: sample re-weighting is the exact gradient of the Lagrangian."""
import random

import numpy as np
import pandas as pd
import z3

from harness import moments_common as mc
from symx import core, oracle as O
from symx.core import SReal, integer, real, term
from symx.runner import F, JobAcc

PROPERTY = "C07"
BUDGET = {"quick": 210, "thorough": 1700}
META = {
    "explanation": "bounded symbolic execution of the real signed_weights / gamma / bound / project_lambda of every moment, of "
                   "_Lagrangian.__init__/_call_oracle and of the relabel/reweight lines of GridSearch.fit (recorder estimator), with symbolic multipliers "
                   "lambda>=0 (one per index entry), two symbolic soft predictors h,h', symbolic ratio bound r / difference bound eps / costs. z3 decides: "
                   "lambda.gamma(h)-lambda.gamma(h') == -(1/n) sum w_i(h_i-h'_i) (utility moments, ErrorRate objective); lambda.gamma(h) == (1/n) sum w_i "
                   "loss_i(h) (BoundedGroupLoss); for the recorded (relabelled y, weights) and ANY two hard predictors b,b': weighted 0/1 cost order == "
                   "Lagrangian order (cost(b)<cost(b') <=> L(b)<L(b'), ties <=> ties); project_lambda(lambda)>=0 and L(h,project(lambda))>=L(h,lambda).",
    "tier_bounds": {"quick": "n<=3 exhaustive structures (labels x groups<=3 x control strata 0/<=2), n=4 seeded 16 per moment/bound; oracle/grid jobs n<=3 "
                             "exhaustive without control + seeded with control",
                    "thorough": "n<=4 exhaustive, n=5 seeded 60"},
    "trusted_base": ["z3", "symx", "pandas as executed", "recorder estimator (records fit arguments)"],
    "stubs": ["DummyClassifier in _lagrangian / grid_search -> recorder", "nanops._ensure_numeric"],
    "assumptions": ["lambda >= 0", "h,h' in [0,1]", "r in (0,1]", "eps >= 0", "exact reals"],
    "outside": ["n beyond bound", "the learner itself (premise: exact cost-sensitive learner)"],
}
MANIFEST = {
    "level_text": "Bounded symbolic verification: polynomial identities and order-equivalences proved by z3 for ALL multipliers, predictors and bounds on "
                  "each enumerated dataset structure, through the real moment code and the real relabel/reweight code of both reduction algorithms.",
    "level_note": "Trusted: z3, symx, pandas as executed. Dataset structures enumerated/seeded (n<=3..5). Exact reals.",
    "design_ref": "DESIGN.md section 6 C07",
}

RECORDS = []


class Recorder:
    """Stands in for the user's learner and for DummyClassifier: records what it is asked to fit."""

    def __init__(self, **kw):
        self.kw = kw

    def get_params(self, deep=False):
        return {}

    def set_params(self, **kw):
        return self

    def fit(self, X, y, sample_weight=None, **kw):
        RECORDS.append((np.asarray(y).copy(), None if sample_weight is None else list(np.asarray(sample_weight, dtype=object))))
        self.n_ = len(y)
        return self

    def predict(self, X):
        return np.zeros(len(X))

    def __deepcopy__(self, memo):
        return Recorder()


def setup():
    import fairlearn.reductions._exponentiated_gradient._lagrangian as lg
    import fairlearn.reductions._grid_search.grid_search as gs

    lg.DummyClassifier = Recorder
    gs.DummyClassifier = Recorder


def jobs(tier, seed):
    rnd = random.Random(seed)
    js = []
    exh = (2, 3) if tier == "quick" else (2, 3, 4)
    samp = ((4, 8),) if tier == "quick" else ((5, 60),)
    for name in mc.PARITY:
        for bk in ("difference", "ratio"):
            structs = []
            for n in exh:
                structs += list(mc.datasets(n, 3, 2))
            for n, k in samp:
                structs += mc.sample_datasets(n, 3, 2, k, rnd)
            for ci in range(0, len(structs), 20):  # small chunks: the 16 workers stay evenly loaded and no job outlives the budget
                js.append({"id": f"ident-{name}-{bk}-{ci // 20}", "kind": "ident", "moment": name, "bound": bk, "structs": structs[ci:ci + 20]})
        for where in ("oracle", "grid"):
            structs = list(mc.datasets(2, 2, 0))
            if tier == "quick":
                structs += mc.sample_datasets(3, 2, 0, 8, rnd, need_ctrl=False)
            else:
                structs += list(mc.datasets(3, 2, 0))
            structs += mc.sample_datasets(3, 3, 2, 2 if tier == "quick" else 30, rnd, need_ctrl=True)
            if tier != "quick":
                structs += mc.sample_datasets(4, 3, 2, 30, rnd)
            for ci in range(0, len(structs), 1):  # one structure per job: a structure with control strata alone costs up to ~70 s of NRA queries
                # quick tier: 5 s per pair query (a handful of NRA pair queries on structures with control strata need 30-60 s each; they come back
                # `unknown` = undischarged in the quick evidence and are decided in the thorough tier, which keeps the 60 s cap)
                js.append({"id": f"{where}-{name}-{ci}", "kind": where, "moment": name, "structs": structs[ci:ci + 1], "ob_ms": 5000 if tier == "quick" else 60000})
    # the generic UtilityParity with user-supplied (symbolic) utilities and events: the public base class of the five parity moments
    for n in (2, 3):
        for g in core.rgs(n, 2):
            if len(set(g)) < 2:
                continue
            for ev in core.rgs(n, 2):
                js.append({"id": f"custom-n{n}-{''.join(map(str, g))}-{''.join(map(str, ev))}", "kind": "custom", "groups": list(g), "events": list(ev)})
    for n in (1, 2, 3) if tier == "quick" else (1, 2, 3, 4):
        import itertools as _it
        for yv in _it.product([0, 1], repeat=n):
            js.append({"id": f"errobj-{''.join(map(str, yv))}", "kind": "errobj", "y": list(yv)})
    for loss in ("square", "absolute"):
        for n in (2, 3):
            for g in core.rgs(n, 3):
                js.append({"id": f"bgl-{loss}-n{n}-{''.join(map(str, g))}", "kind": "bgl", "loss": loss, "groups": list(g),
                           "y": [rnd.choice([-0.5, 0.0, 0.25, 0.5, 1.0, 1.5]) for _ in range(n)]})
    js.sort(key=lambda j: {"bgl": 0, "errobj": 1, "custom": 1, "ident": 2}.get(j["kind"], 3))  # cheap identity jobs first, the pairwise order jobs last
    return js


LAM_ORDER = ["index"]


def _lam(m, prefix="l"):
    """symbolic multipliers, one per index entry; the Series is handed over either in index order or in REVERSED label order
    (multipliers are matched by label, not by position)"""
    vals = [real(f"{prefix}{j}", 0) for j in range(len(m.index))]
    s = pd.Series(vals, index=m.index, dtype=object)
    if LAM_ORDER[0] == "reversed":
        s = s.iloc[::-1]
    return s


def _dot(a, b):
    return core.zsum([term(a[e]) * term(b[e]) for e in a.index])


def run_job(job, deadline):
    mc.set_group_order(job["id"])
    acc = JobAcc(job)
    if job["kind"] == "bgl":
        _bgl(acc, job, deadline)
        return acc.result()
    if job["kind"] == "errobj":
        _errobj(acc, job, deadline)
        return acc.result()
    if job["kind"] == "custom":
        _custom(acc, job, deadline)
        return acc.result()
    for si, (y, groups, ctrl) in enumerate(job["structs"]):
        if job["kind"] == "ident":
            _ident(acc, job, si, y, groups, ctrl, deadline)
        else:
            _reduction(acc, job, si, y, groups, ctrl, deadline)
    return acc.result()


def _ident(acc, job, si, y, groups, ctrl, deadline):
    import fairlearn.reductions as red

    LAM_ORDER[0] = "reversed" if si % 2 else "index"

    n, name, bk = len(y), job["moment"], job["bound"]
    ex = {"y": y, "groups": groups, "ctrl": ctrl}

    def run():
        h = np.array([real(f"h{i}", 0, 1) for i in range(n)], dtype=object)
        h2 = np.array([real(f"k{i}", 0, 1) for i in range(n)], dtype=object)
        if bk == "ratio":
            m = mc.make_moment(name, "ratio", real("r", 0, 1, lo_strict=True), real("slack", 0))
        else:
            m = mc.make_moment(name, "difference", real("eps", 0))
        mc.load(m, y, groups, ctrl)
        lam = _lam(m)
        w = m.signed_weights(lam)
        g1, g2 = m.gamma(lambda X: h), m.gamma(lambda X: _as_column(job, h2))
        b = m.bound()
        pl = m.project_lambda(lam) if len(m.index) else lam
        return m, h, h2, lam, w, g1, g2, b, pl

    def on_ok(ctx, out):
        m, h, h2, lam, w, g1, g2, b, pl = out
        e1 = 0  # the error term is the same on both sides of the projection inequality
        acc.reach(ctx)
        sig = f"ident:{name}:{bk}"
        items = []
        if len(m.index):
            lhs = _dot(lam, g1) - _dot(lam, g2)
            rhs = -core.zsum([term(w.iloc[i]) * (term(h[i]) - term(h2[i])) for i in range(n)]) / n
            items.append(("constraint_reweighting_is_lagrangian_gradient", lhs == rhs, sig + ":constraints", ex))
            same_idx = sorted(map(str, pl.index)) == sorted(map(str, lam.index))
            items.append(("project_lambda_keeps_index", z3.BoolVal(bool(same_idx)), sig + ":project:index", ex))
            if same_idx:
                items.append(("project_lambda_nonnegative", z3.And([term(pl[e]) >= 0 for e in lam.index]), sig + ":project:sign", ex))
                L = lambda lv: term(e1) + core.zsum([term(lv[e]) * (term(g1[e]) - term(b[e])) for e in lam.index])
                items.append(("projected_lagrangian_not_lower", L(pl) >= L(lam), sig + ":project:value", ex))
        acc.check_all(ctx, items)
        if len(m.index):
            acc.canary(ctx, "canary_identity_shifted", lhs == rhs + 1)
        else:
            acc.canary(ctx, "canary_identity_shifted", z3.BoolVal(False))
        if si == 0:
            acc.sample({"job": job["id"], "struct": ex, "w[0]": str(z3.simplify(term(w.iloc[0])))[:300] if len(m.index) else ""})

    acc.explore(run, on_ok, deadline=deadline, max_paths=4096, record_funcs=(si == 0))


def _reduction(acc, job, si, y, groups, ctrl, deadline):
    """Recorded (relabelled y, weights) of _call_oracle / GridSearch.fit order hard predictors exactly like the Lagrangian."""
    import fairlearn.reductions as red
    from fairlearn.reductions._exponentiated_gradient._lagrangian import _Lagrangian

    n, name, where = len(y), job["moment"], job["kind"]
    acc.ob_timeout_ms = job.get("ob_ms", 60000)
    ex = {"y": y, "groups": groups, "ctrl": ctrl, "cw": [0.5, 0.125, 0.875][(si + int(job["id"].rsplit("-", 1)[1])) % 3]}
    LAM_ORDER[0] = "index"
    kw = {"sensitive_features": [mc.GROUP_NAMES[g] for g in groups]}
    if ctrl is not None:
        kw["control_features"] = [mc.CTRL_NAMES[c] for c in ctrl]

    def run():
        del RECORDS[:]
        X = pd.DataFrame({"f": list(range(n))})
        r = real("r", 0, 1, lo_strict=True)
        cons = mc.make_moment(name, "ratio", r, 0.0)
        if where == "oracle":
            lag = _Lagrangian(X=X, y=list(y), estimator=Recorder(), constraints=cons, B=10, **kw)
            if len(cons.index) == 0:
                return None
            lam = _lam(cons)
            lag._call_oracle(lam)
        else:
            probe = mc.make_moment(name, "ratio", 1.0, 0.0)
            mc.load(probe, y, groups, ctrl)
            if len(probe.index) == 0:
                return None
            lam = pd.Series([real(f"l{j}", 0) for j in range(len(probe.index))], index=probe.index, dtype=object)
            # the selection trade-off (constraint_weight) has no say in HOW each grid point is trained: non-default values in two of three structures
            gs = red.GridSearch(Recorder(), constraints=cons, grid=pd.DataFrame({0: lam}), constraint_weight=ex["cw"])
            gs.fit(X, list(y), **kw)
        if not RECORDS:
            return "no-fit"
        redY, redW = RECORDS[0]
        # independent Lagrangian written from the definition (no fairlearn code): err(b) + lambda . gamma(b)
        probe2 = mc.make_moment(name, "ratio", 1.0, 0.0)
        mc.load(probe2, y, groups, ctrl)
        mapping, problems = mc.index_map(probe2, name, y, groups, ctrl)
        if problems or list(map(str, probe2.index)) != list(map(str, lam.index)):
            return "index-mismatch"
        return redY, redW, lam, r, probe2, mapping

    def on_ok(ctx, out):
        if out is None:
            return
        sig = f"{where}:{name}"
        if isinstance(out, str):
            acc.check(ctx, "learner_called_and_index_consistent", z3.BoolVal(False), signature=sig + ":" + out, extra=ex)
            return
        redY, redW, lam, r, probe2, mapping = out
        acc.reach(ctx)
        ok_shape = len(redY) == n and redW is not None and len(redW) == n and all(v in (0, 1) for v in redY)
        acc.check(ctx, "relabelled_targets_are_binary_and_weights_present", z3.BoolVal(bool(ok_shape)), signature=sig + ":shape", extra=ex)
        if not ok_shape:
            return
        if any(core.is_nan(v) for v in redW):
            return  # all-zero weights (every lambda and cost weight cancels): normalisation 0/0, no learner preference either way

        def lagr(b):
            err = z3.RealVal(sum(1 for i in range(n) if b[i] != y[i])) / n
            gam = mc.oracle_gamma(name, y, groups, ctrl, list(b), r)
            return err + core.zsum([term(lam.iloc[j]) * gam[mapping[e]] for j, e in enumerate(probe2.index)])

        cost = lambda b: core.zsum([term(redW[i]) for i in range(n) if b[i] != int(redY[i])])
        # the hard predictors form a finite set: every unordered pair is stated (exact, no sampling), one conjunction per path
        import itertools
        hs = list(itertools.product([0, 1], repeat=n))
        L = {b: lagr(b) for b in hs}
        C = {b: cost(b) for b in hs}
        pairs = [z3.And((C[b1] < C[b2]) == (L[b1] < L[b2]), (C[b1] == C[b2]) == (L[b1] == L[b2])) for b1, b2 in itertools.combinations(hs, 2)]
        acc.check(ctx, "weights_nonnegative", z3.And([term(v) >= 0 for v in redW]), signature=sig + ":sign", extra=ex)
        for pf in pairs:  # one small query per pair: the conjunction of all pairs is much harder for z3 than its parts
            acc.check(ctx, "weighted_cost_orders_predictors_like_the_lagrangian", pf, signature=sig + ":order", extra=ex)
        acc.canary(ctx, "canary_cost_shift", C[hs[0]] == C[hs[-1]] + z3.RealVal("1/7"))
        if si == 0:
            acc.sample({"job": job["id"], "struct": ex, "redY": [int(v) for v in redY], "redW[0]": str(redW[0])[:200]})

    acc.explore(run, on_ok, deadline=deadline, max_paths=4096, record_funcs=(si == 0))


def _custom_moment(groups, events, U):
    import fairlearn.reductions as red

    n = len(groups)
    m = red.UtilityParity(difference_bound=0.1)
    X = pd.DataFrame({"f": list(range(n))})
    m.load_data(X, pd.Series([i % 2 for i in range(n)]), sensitive_features=pd.Series([mc.GROUP_NAMES[g] for g in groups]),
                event=pd.Series([f"e{e}" for e in events]), utilities=U)
    return m


def _custom(acc, job, deadline):
    groups, events = job["groups"], job["events"]
    n = len(groups)
    ex = {"groups": groups, "events": events}

    def run():
        U = np.array([[real(f"u{i}_0", -3, 5), real(f"u{i}_1", -3, 5)] for i in range(n)], dtype=object)
        h = np.array([real(f"h{i}", 0, 1) for i in range(n)], dtype=object)
        h2 = np.array([real(f"k{i}", 0, 1) for i in range(n)], dtype=object)
        m = _custom_moment(groups, events, U)
        lam = _lam(m)
        return m, h, h2, lam, m.signed_weights(lam), m.gamma(lambda X: h), m.gamma(lambda X: _as_column(job, h2))

    def on_ok(ctx, out):
        m, h, h2, lam, w, g1, g2 = out
        acc.reach(ctx)
        lhs = _dot(lam, g1) - _dot(lam, g2)
        rhs = -core.zsum([term(w.iloc[i]) * (term(h[i]) - term(h2[i])) for i in range(n)]) / n
        acc.check(ctx, "custom_utilities_reweighting_is_lagrangian_gradient", lhs == rhs, signature="ident:UtilityParity:custom_utilities", extra=ex)
        acc.canary(ctx, "canary_custom", lhs == rhs + 1)

    acc.explore(run, on_ok, deadline=deadline, max_paths=300)


def _as_column(job, v):
    """every other job: the second predictor returns its (soft) predictions as an (n,1) column array, as Keras/TensorFlow models do - the moments
    document that they squeeze it; the identities are about the SAME function of h whatever the container shape"""
    v = np.asarray(v)
    if len(v) >= 2 and sum(job["id"].encode()) % 2:
        return v.reshape(-1, 1)
    return v


def _errobj(acc, job, deadline):
    import fairlearn.reductions as red

    y = job["y"]
    n = len(y)
    groups = [0] * n
    ex = {"y": y, "groups": groups, "ctrl": None}

    def run():
        h = np.array([real(f"h{i}", 0, 1) for i in range(n)], dtype=object)
        h2 = np.array([real(f"k{i}", 0, 1) for i in range(n)], dtype=object)
        cfp, cfn = real("cfp", 0), real("cfn", 0)
        core.cur().assume(cfp.e + cfn.e > 0)
        obj = red.ErrorRate(costs={"fp": cfp, "fn": cfn})
        mc.load(obj, y, groups, None)
        wo = obj.signed_weights()
        lam = real("lam", 0)
        wl = obj.signed_weights(pd.Series([lam], index=obj.index, dtype=object))  # ErrorRate used with an explicit multiplier
        return h, h2, wo, obj.gamma(lambda X: h).iloc[0], obj.gamma(lambda X: _as_column(job, h2)).iloc[0], lam, wl

    def on_ok(ctx, out):
        h, h2, wo, e1, e2, lam, wl = out
        acc.reach(ctx)
        rhs = -core.zsum([term(wo.iloc[i]) * (term(h[i]) - term(h2[i])) for i in range(n)]) / n
        acc.check(ctx, "objective_reweighting_is_error_gradient", term(e1) - term(e2) == rhs, signature="ident:ErrorRate", extra=ex)
        rhs_l = -core.zsum([term(wl.iloc[i]) * (term(h[i]) - term(h2[i])) for i in range(n)]) / n
        acc.check(ctx, "errorrate_reweighting_with_multiplier", term(lam) * (term(e1) - term(e2)) == rhs_l, signature="ident:ErrorRate:lambda", extra=ex)
        acc.canary(ctx, "canary_objective_shift", term(e1) - term(e2) == rhs + 1)

    acc.explore(run, on_ok, deadline=deadline, max_paths=5000)


def _bgl(acc, job, deadline):
    import fairlearn.reductions as red

    y, groups = job["y"], job["groups"]
    n = len(y)
    ex = {"y": y, "groups": groups}
    LAM_ORDER[0] = "reversed" if sum(groups) % 2 else "index"

    def run():
        h = [real(f"h{i}", -1, 2) for i in range(n)]
        loss = red.SquareLoss(0, 1) if job["loss"] == "square" else red.AbsoluteLoss(0, 1)
        m = red.BoundedGroupLoss(loss, upper_bound=0.1)
        X = pd.DataFrame({"f": list(range(n))})
        m.load_data(X, y, sensitive_features=[mc.GROUP_NAMES[g] for g in groups])
        lam = _lam(m)
        w = m.signed_weights(lam)
        g = m.gamma(lambda X: pd.Series(h, dtype=object))
        clip = lambda v: 0 if v < 0 else (1 if v > 1 else v)
        li = []
        for i in range(n):
            d = clip(y[i]) - clip(h[i])
            li.append(d * d if job["loss"] == "square" else abs(d))
        ob = m.default_objective()
        ob.load_data(X, y, sensitive_features=[mc.GROUP_NAMES[g] for g in groups])
        return m, lam, w, g, li, ob.signed_weights(), ob.gamma(lambda X: pd.Series(h, dtype=object)).iloc[0]

    def on_ok(ctx, out):
        m, lam, w, g, li, wo, eo = out
        acc.reach(ctx)
        sig = f"bgl:{job['loss']}"
        acc.check_all(ctx, [
            ("loss_moment_reweighting_identity", _dot(lam, g) == core.zsum([term(w.iloc[i]) * term(li[i]) for i in range(n)]) / n, sig + ":constraints", ex),
            ("mean_loss_objective_identity", term(eo) == core.zsum([term(wo.iloc[i]) * term(li[i]) for i in range(n)]) / n, sig + ":objective", ex)])
        acc.canary(ctx, "canary_bgl", term(eo) == core.zsum([term(wo.iloc[i]) * term(li[i]) for i in range(n)]) / n + 1)

    acc.explore(run, on_ok, deadline=deadline, max_paths=2000)


# ---- replay ------------------------------------------------------------------------------------------
def replay(cex):
    import fairlearn.reductions as red
    from fairlearn.reductions._exponentiated_gradient._lagrangian import _Lagrangian
    import fairlearn.reductions._exponentiated_gradient._lagrangian as lg
    import fairlearn.reductions._grid_search.grid_search as gs

    job, mdl, ex = cex["job"], cex["model"], cex["extra"]
    mc.set_group_order(job["id"])
    f = lambda k, d="0": float(F(mdl.get(k, d)))
    bad = []
    if job["kind"] == "bgl":
        y, groups = job["y"], job["groups"]
        n = len(y)
        h = [f(f"h{i}") for i in range(n)]
        loss = red.SquareLoss(0, 1) if job["loss"] == "square" else red.AbsoluteLoss(0, 1)
        m = red.BoundedGroupLoss(loss, upper_bound=0.1)
        X = pd.DataFrame({"f": list(range(n))})
        m.load_data(X, y, sensitive_features=[mc.GROUP_NAMES[g] for g in groups])
        lam = pd.Series([f(f"l{j}") for j in range(len(m.index))], index=m.index).iloc[::-1]
        w = m.signed_weights(lam)
        g = m.gamma(lambda X: pd.Series(h))
        clip = lambda v: min(max(v, 0), 1)
        li = [(clip(y[i]) - clip(h[i])) ** 2 if job["loss"] == "square" else abs(clip(y[i]) - clip(h[i])) for i in range(n)]
        lhs, rhs = float((lam * g).sum()), sum(float(w.iloc[i]) * li[i] for i in range(n)) / n
        if abs(lhs - rhs) > 1e-9 * max(1, abs(lhs)):
            bad.append(f"lambda.gamma={lhs} vs (1/n) sum w*loss={rhs}")
        return {"reproduced": bool(bad), "detail": "; ".join(bad) + f" | {ex} h={h} lam={list(lam)}"}
    if job["kind"] == "custom":
        groups, events = job["groups"], job["events"]
        n = len(groups)
        U = np.array([[f(f"u{i}_0"), f(f"u{i}_1")] for i in range(n)])
        h, h2 = np.array([f(f"h{i}") for i in range(n)]), np.array([f(f"k{i}") for i in range(n)])
        m = _custom_moment(groups, events, U)
        lam = pd.Series([f(f"l{j}") for j in range(len(m.index))], index=m.index)
        w = m.signed_weights(lam)
        lhs = float((lam * m.gamma(lambda X: h)).sum() - (lam * m.gamma(lambda X: _as_column(job, h2))).sum())
        rhs = -float(sum(w.iloc[i] * (h[i] - h2[i]) for i in range(n))) / n
        bad = [] if abs(lhs - rhs) <= 1e-9 * max(1, abs(lhs)) else [f"UtilityParity with utilities {U.tolist()}: lambda.(gamma(h)-gamma(h'))={lhs} but -(1/n)sum w(h-h')={rhs}"]
        return {"reproduced": bool(bad), "detail": "; ".join(bad) + f" | h={h.tolist()} h'={h2.tolist()} lam={list(lam)}"}
    y, groups, ctrl = ex["y"], ex["groups"], ex.get("ctrl")
    n, name = len(y), job.get("moment")
    if job["kind"] == "errobj":
        h, h2 = np.array([f(f"h{i}") for i in range(n)]), np.array([f(f"k{i}") for i in range(n)])
        obj = red.ErrorRate(costs={"fp": f("cfp", "1"), "fn": f("cfn", "1")})
        mc.load(obj, y, groups, ctrl)
        wo = obj.signed_weights()
        lhs = float(obj.gamma(lambda X: h).iloc[0] - obj.gamma(lambda X: _as_column(job, h2)).iloc[0])
        rhs = -float(sum(wo.iloc[i] * (h[i] - h2[i]) for i in range(n))) / n
        if abs(lhs - rhs) > 1e-9 * max(1, abs(lhs)):
            bad.append(f"ErrorRate: gamma(h)-gamma(h')={lhs} but -(1/n)sum w(h-h')={rhs}")
        lam = f("lam", "2")
        wl = obj.signed_weights(pd.Series([lam], index=obj.index))
        rhs_l = -float(sum(wl.iloc[i] * (h[i] - h2[i]) for i in range(n))) / n
        if abs(lam * lhs - rhs_l) > 1e-9 * max(1, abs(lhs)):
            bad.append(f"ErrorRate with multiplier {lam}: lambda*(gamma(h)-gamma(h'))={lam * lhs} but -(1/n)sum w(lambda)(h-h')={rhs_l}")
        return {"reproduced": bool(bad), "detail": "; ".join(bad) + f" | y={y} h={h.tolist()} h'={h2.tolist()}"}
    if job["kind"] == "ident":
        h, h2 = np.array([f(f"h{i}") for i in range(n)]), np.array([f(f"k{i}") for i in range(n)])
        if job["bound"] == "ratio":
            m = mc.make_moment(name, "ratio", f("r", "1"), f("slack"))
        else:
            m = mc.make_moment(name, "difference", f("eps"))
        mc.load(m, y, groups, ctrl)
        lam = pd.Series([f(f"l{j}") for j in range(len(m.index))], index=m.index).iloc[::-1]
        if len(m.index):
            w = m.signed_weights(lam)
            g1, g2 = m.gamma(lambda X: h), m.gamma(lambda X: _as_column(job, h2))
            lhs = float((lam * g1).sum() - (lam * g2).sum())
            rhs = -float(sum(w.iloc[i] * (h[i] - h2[i]) for i in range(n))) / n
            if abs(lhs - rhs) > 1e-9 * max(1, abs(lhs)):
                bad.append(f"lambda.(gamma(h)-gamma(h'))={lhs} but -(1/n)sum w(h-h')={rhs}")
            pl = m.project_lambda(lam.copy())
            if (pl < -1e-12).any():
                bad.append(f"project_lambda has negative entries {list(pl)}")
            else:
                obj0 = red.ErrorRate()
                mc.load(obj0, y, groups, ctrl)
                b = m.bound()
                L = lambda lv: float(sum(lv[e] * (g1[e] - b[e]) for e in lam.index))
                if L(pl) < L(lam) - 1e-9:
                    bad.append(f"Lagrangian dropped after project_lambda: {L(pl)} < {L(lam)}")
        return {"reproduced": bool(bad), "detail": "; ".join(bad)[:600] + f" | {ex} h={h.tolist()} h'={h2.tolist()} lam={list(lam)}"}
    # oracle / grid: real code with the recorder, concrete lambda, exhaustive over hard predictor pairs
    import itertools

    lg.DummyClassifier = Recorder
    gs.DummyClassifier = Recorder
    del RECORDS[:]
    kw = {"sensitive_features": [mc.GROUP_NAMES[g] for g in groups]}
    if ctrl is not None:
        kw["control_features"] = [mc.CTRL_NAMES[c] for c in ctrl]
    X = pd.DataFrame({"f": list(range(n))})
    r = f("r", "1")
    cons = mc.make_moment(name, "ratio", r, 0.0)
    probe = mc.make_moment(name, "ratio", r, 0.0)
    mc.load(probe, y, groups, ctrl)
    lam = pd.Series([f(f"l{j}") for j in range(len(probe.index))], index=probe.index)
    try:
        if job["kind"] == "oracle":
            lag = _Lagrangian(X=X, y=list(y), estimator=Recorder(), constraints=cons, B=10, **kw)
            lag._call_oracle(lam)
        else:
            red.GridSearch(Recorder(), constraints=cons, grid=pd.DataFrame({0: lam}), constraint_weight=ex.get("cw", 0.5)).fit(X, list(y), **kw)
    except Exception as e:
        return {"reproduced": True, "signature": f"{job['kind']}:{name}:exception", "detail": f"raised {type(e).__name__}: {e}"}
    if not RECORDS:
        return {"reproduced": True, "detail": "learner never called"}
    redY, redW = RECORDS[0]
    redW = [float(v) for v in redW]
    o2 = red.ErrorRate()
    mc.load(o2, y, groups, ctrl)
    vals = []
    for b in itertools.product([0, 1], repeat=n):
        bb = np.array(b, dtype=float)
        L = float(o2.gamma(lambda X: bb).iloc[0] + (lam * probe.gamma(lambda X: bb)).sum())
        cost = sum(redW[i] for i in range(n) if b[i] != redY[i])
        vals.append((b, L, cost))
    for (b1, L1, c1), (b2, L2, c2) in itertools.combinations(vals, 2):
        if (c1 < c2 - 1e-9 and not L1 < L2 + 1e-9) or (L1 < L2 - 1e-9 and not c1 < c2 + 1e-9):
            bad.append(f"predictors {b1},{b2}: weighted cost {c1:.4g},{c2:.4g} but Lagrangian {L1:.4g},{L2:.4g}")
            break
    return {"reproduced": bool(bad), "detail": "; ".join(bad) + f" | {ex} lam={list(lam)} r={r} redY={list(map(int, redY))} redW={redW}"}
