"""Shared pieces for the reduction-moment harnesses (C06, C07, C08, C09, C12)."""
import itertools
import random

import numpy as np
import pandas as pd
import z3

from symx import core
from symx.core import SReal, term

PARITY = ["DemographicParity", "TruePositiveRateParity", "FalsePositiveRateParity", "EqualizedOdds", "ErrorRateParity"]
GROUP_NAMES = ["G0", "G1", "G2", "G3"]


def set_group_order(job_id):
    """Restricted-growth group ids always first appear in increasing order; for every other job the NAMES are assigned in decreasing order,
    so that the order of first appearance in the data differs from the sorted order of the labels."""
    rev = sum(job_id.encode()) % 2 == 1
    GROUP_NAMES[:] = ["G3", "G2", "G1", "G0"] if rev else ["G0", "G1", "G2", "G3"]
    return rev
CTRL_NAMES = ["K0", "K1", "K2"]


def make_moment(name, bound_kind, bound_value, slack=None):
    import fairlearn.reductions as red

    cls = getattr(red, name)
    if bound_kind == "difference":
        return cls(difference_bound=bound_value)
    if bound_kind == "ratio":
        return cls(ratio_bound=bound_value, ratio_bound_slack=slack if slack is not None else 0.0)
    return cls()


def datasets(n, max_groups, max_ctrl, need_ctrl=None):
    """all (labels, groups, control) structures: labels in {0,1}^n, groups/controls as restricted-growth strings"""
    for y in itertools.product([0, 1], repeat=n):
        for g in core.rgs(n, max_groups):
            ctrls = [None] if max_ctrl == 0 else [None] + [c for c in core.rgs(n, max_ctrl)]
            for c in ctrls:
                if need_ctrl is True and c is None:
                    continue
                if need_ctrl is False and c is not None:
                    continue
                yield list(y), list(g), (None if c is None else list(c))


def sample_datasets(n, max_groups, max_ctrl, k, rnd, need_ctrl=None):
    out = []
    for _ in range(k):
        y = [rnd.randint(0, 1) for _ in range(n)]
        g = rnd.choice(list(core.rgs(n, max_groups)))
        c = None
        if max_ctrl and (need_ctrl or (need_ctrl is None and rnd.random() < 0.5)):
            c = list(rnd.choice(list(core.rgs(n, max_ctrl))))
        out.append((y, list(g), c))
    return out


def events_of(moment_name, y, ctrl):
    """oracle: per row, the event key (control value or None, base event) or None when the row belongs to no event"""
    n = len(y)
    ev = []
    for i in range(n):
        if moment_name in ("DemographicParity", "ErrorRateParity"):
            base = "all"
        elif moment_name == "TruePositiveRateParity":
            base = "label=1" if y[i] == 1 else None
        elif moment_name == "FalsePositiveRateParity":
            base = "label=0" if y[i] == 0 else None
        else:
            base = f"label={y[i]}"
        ev.append(None if base is None else ((None if ctrl is None else ctrl[i]), base))
    return ev


def utility_of(moment_name, y, h):
    """u_i: the prediction, or the (soft) error indicator for error-rate parity"""
    if moment_name == "ErrorRateParity":
        return [(1 - h[i]) if y[i] == 1 else h[i] for i in range(len(y))]
    return list(h)


def match_event(code_event, key):
    """does the code's event label denote the oracle event key (control, base)?"""
    c, base = key
    s = str(code_event)
    if base not in s:
        return False
    if c is None:
        return "K" not in s
    return CTRL_NAMES[c] in s


def oracle_gamma(moment_name, y, groups, ctrl, h, r):
    """{(sign, event_key, group): z3 term} from the definition; r = ratio (1 for difference bounds)"""
    n = len(y)
    ev = events_of(moment_name, y, ctrl)
    u = utility_of(moment_name, y, h)
    out = {}
    for e in sorted(set(x for x in ev if x is not None), key=str):
        rows_e = [i for i in range(n) if ev[i] == e]
        mean_e = core.zsum([term(u[i]) for i in rows_e]) / len(rows_e)
        for g in sorted(set(groups[i] for i in rows_e)):
            rows = [i for i in rows_e if groups[i] == g]
            mean_eg = core.zsum([term(u[i]) for i in rows]) / len(rows)
            out[("+", e, g)] = term(r) * mean_eg - mean_e
            out[("-", e, g)] = term(r) * mean_e - mean_eg
    return out


def load(moment, y, groups, ctrl, X=None):
    n = len(y)
    if X is None:
        X = pd.DataFrame({"f": list(range(n))})
    kw = {"sensitive_features": [GROUP_NAMES[g] for g in groups]}
    if ctrl is not None:
        kw["control_features"] = [CTRL_NAMES[c] for c in ctrl]
    moment.load_data(X, list(y), **kw)
    return X


def index_map(moment, moment_name, y, groups, ctrl):
    """Map each index entry of the loaded parity moment to an oracle key. Returns (mapping, problems)."""
    ev = events_of(moment_name, y, ctrl)
    keys = set()
    for i in range(len(y)):
        if ev[i] is not None:
            keys.add((ev[i], groups[i]))
    mapping, problems = {}, []
    for entry in moment.index:
        sign, e, g = entry
        cands = [(k, gg) for (k, gg) in keys if GROUP_NAMES[gg] == g and match_event(e, k)]
        if len(cands) != 1:
            problems.append(f"index entry {entry} matches {len(cands)} (event, group) pairs of the data")
            continue
        mapping[entry] = (sign, cands[0][0], cands[0][1])
    want = {(s, k, g) for (k, g) in keys for s in ("+", "-")}
    got = list(mapping.values())
    if len(set(got)) != len(got):
        problems.append("two index entries denote the same (sign, event, group)")
    if set(got) != want:
        problems.append(f"index covers {len(set(got))} of {len(want)} expected (sign, event, group) entries")
    return mapping, problems
