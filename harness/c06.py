"""C06 - constraint moments measure exactly the documented parity violations."""
import random

import numpy as np
import pandas as pd
import z3

from harness import moments_common as mc
from symx import core, oracle as O, stubs
from symx.core import SReal, integer, real, term
from symx.runner import F, JobAcc

PROPERTY = "C06"
BUDGET = {"quick": 170, "thorough": 1700}
META = {
    "explanation": "bounded symbolic execution of the real load_data / gamma / bound / index of DemographicParity, TruePositiveRateParity, "
                   "FalsePositiveRateParity, EqualizedOdds, ErrorRateParity (difference bound eps or ratio bound r symbolic), ErrorRate (symbolic costs), "
                   "BoundedGroupLoss / MeanLoss with Square/Absolute/ZeroOne loss, on symbolic soft predictions h in [0,1]^n. Labels / groups / control "
                   "strata are structural (enumerated canonically or seeded). Oracle from the definition: one '+' and one '-' entry per (event, group) pair "
                   "occurring in the data with gamma+ = r*mean_{e,g}(u) - mean_e(u), gamma- = r*mean_e(u) - mean_{e,g}(u); bound() = slack; BGL = per-group mean "
                   "clipped loss; ErrorRate = cost-weighted error; for r=1 the '+' entries equal real-MetricFrame by_group - overall of the matching rate.",
    "tier_bounds": {"quick": "n<=3 rows exhaustive over labels x groups(<=3) x control strata(0 or <=2), n=4 seeded 24 structures per moment/bound kind; "
                             "BGL/ErrorRate n<=3; MetricFrame cross-check n<=3 hard predictions",
                    "thorough": "n<=4 exhaustive, n=5,6 seeded 60 structures, control strata <=3, groups <=4"},
    "trusted_base": ["z3", "symx", "pandas as executed", "confusion-matrix stub (only in the MetricFrame cross-check)"],
    "stubs": ["nanops._ensure_numeric", "_base_metrics.skm.confusion_matrix + np.unique (MetricFrame cross-check only)"],
    "assumptions": ["h in [0,1]", "r in (0,1]", "eps, slack >= 0", "costs >= 0, not both 0", "exact reals"],
    "outside": ["n beyond the bound", "multi-column sensitive features (C13)"],
}
MANIFEST = {
    "level_text": "Bounded symbolic verification against the definition: for each enumerated (labels, groups, control strata) structure and ALL soft "
                  "predictions, ratio/difference bounds, slacks and costs, z3 proves gamma, bound and index of every moment equal the documented formulas.",
    "level_note": "Trusted: z3, symx, pandas as executed. Structures enumerated/seeded within n<=4..6; numeric quantities solver-quantified. Exact reals.",
    "design_ref": "DESIGN.md section 6 C06",
}


def setup():
    stubs.install_base_metrics_stubs()
    stubs.LABEL_DOMAIN[0] = [0, 1]


def jobs(tier, seed):
    rnd = random.Random(seed)
    js = []
    if tier == "quick":
        exh, samp_n, samp_k, mg, mctrl = (2, 3), (4,), 24, 3, 2
    else:
        exh, samp_n, samp_k, mg, mctrl = (2, 3, 4), (5, 6), 60, 4, 3
    for name in mc.PARITY:
        for bk in ("difference", "ratio"):
            structs = []
            for n in exh:
                structs += list(mc.datasets(n, min(mg, 3), min(mctrl, 2)))
            for n in samp_n:
                structs += mc.sample_datasets(n, mg, mctrl, samp_k, rnd)
            chunk = 60
            for ci in range(0, len(structs), chunk):
                js.append({"id": f"parity-{name}-{bk}-{ci // chunk}", "kind": "parity", "moment": name, "bound": bk, "structs": structs[ci:ci + chunk]})
    for name in ("DemographicParity", "TruePositiveRateParity", "FalsePositiveRateParity", "EqualizedOdds"):
        structs = []
        for n in (2, 3) if tier == "quick" else (2, 3, 4):
            structs += list(mc.datasets(n, 3, 0))
        for ci in range(0, len(structs), 40):
            js.append({"id": f"mf-{name}-{ci // 40}", "kind": "mf", "moment": name, "structs": structs[ci:ci + 40]})
    for loss in ("square", "absolute", "zeroone"):
        for n in (2, 3):
            for g in core.rgs(n, 3):
                ys = [[rnd.choice([-0.5, 0.0, 0.25, 0.5, 1.0, 1.5]) for _ in range(n)] for _ in range(2 if tier == "quick" else 5)]
                for yi, yv in enumerate(ys):
                    js.append({"id": f"bgl-{loss}-n{n}-{''.join(map(str, g))}-{yi}", "kind": "bgl", "loss": loss, "y": yv, "groups": list(g)})
    for n in (2, 3) if tier == "quick" else (2, 3, 4):
        structs = list(mc.datasets(n, 2, 0))
        for ci in range(0, len(structs), 16):
            js.append({"id": f"err-n{n}-{ci // 16}", "kind": "err", "structs": structs[ci:ci + 16]})
    return js


def run_job(job, deadline):
    mc.set_group_order(job["id"])
    acc = JobAcc(job)
    kind = job["kind"]
    if kind == "parity":
        for si, (y, groups, ctrl) in enumerate(job["structs"]):
            _parity_struct(acc, job, si, y, groups, ctrl, deadline)
    elif kind == "mf":
        for si, (y, groups, ctrl) in enumerate(job["structs"]):
            _mf_struct(acc, job, si, y, groups, deadline)
    elif kind == "bgl":
        _bgl(acc, job, deadline)
    else:
        for si, (y, groups, ctrl) in enumerate(job["structs"]):
            _err_struct(acc, job, si, y, groups, deadline)
    return acc.result()


def _parity_struct(acc, job, si, y, groups, ctrl, deadline):
    n = len(y)
    name, bk = job["moment"], job["bound"]
    ex = {"y": y, "groups": groups, "ctrl": ctrl}

    def run():
        h = np.array([real(f"h{i}", 0, 1) for i in range(n)], dtype=object)
        if bk == "ratio":
            r = real("r", 0, 1, lo_strict=True)
            slack = real("slack", 0)
            m = mc.make_moment(name, "ratio", r, slack)
            want_bound = slack
        else:
            r = 1
            eps = real("eps", 0)
            m = mc.make_moment(name, "difference", eps)
            want_bound = eps
        try:
            mc.load(m, y, groups, ctrl)
            g = m.gamma(lambda X: h)
            b = m.bound()
        except Exception as e:
            return e
        return m, h, r, g, b, want_bound

    def on_ok(ctx, out):
        if isinstance(out, Exception):
            acc.exception_cex(ctx, out, signature=f"parity:{name}:exception", extra=ex)
            return
        m, h, r, g, b, want_bound = out
        acc.reach(ctx)
        mapping, problems = mc.index_map(m, name, y, groups, ctrl)
        sig = f"parity:{name}:{bk}"
        acc.check(ctx, "index_is_exactly_signed_event_group_pairs", z3.BoolVal(not problems), signature=sig + ":index", extra=dict(ex, problems=problems))
        if problems:
            return
        want = mc.oracle_gamma(name, y, groups, ctrl, list(h), r)
        items = []
        same_index = list(g.index) == list(m.index) and list(b.index) == list(m.index)
        items.append(("gamma_and_bound_share_the_index", z3.BoolVal(bool(same_index)), sig + ":index", ex))
        if same_index:
            items.append(("gamma_equals_documented_violation", z3.And([term(g[e]) == want[mapping[e]] for e in m.index]), sig + ":gamma", ex))
            items.append(("bound_is_the_configured_slack", z3.And([term(b[e]) == term(want_bound) for e in m.index]), sig + ":bound", ex))
        acc.check_all(ctx, items)
        if len(m.index) == 0:  # e.g. TPR parity on data without positives: no event at all
            acc.canary(ctx, "canary_gamma_shifted", z3.BoolVal(False))
            return
        e0 = list(m.index)[0]
        acc.canary(ctx, "canary_gamma_shifted", term(g[e0]) == want[mapping[e0]] + 1)
        if si == 0:
            acc.sample({"job": job["id"], "struct": ex, "gamma[0]": str(z3.simplify(term(g[e0])))[:300]})

    acc.explore(run, on_ok, deadline=deadline, max_paths=64, record_funcs=(si == 0))


def _mf_struct(acc, job, si, y, groups, deadline):
    """r = 1: '+' entries coincide with MetricFrame by_group - overall of the matching rate (hard predictions)."""
    import fairlearn.metrics as fm

    n = len(y)
    name = job["moment"]
    ex = {"y": y, "groups": groups, "ctrl": None}
    rate_for = {"all": fm.selection_rate, "label=1": fm.true_positive_rate, "label=0": fm.false_positive_rate}

    def run():
        b = [integer(f"b{i}", 0, 1) for i in range(n)]
        m = mc.make_moment(name, "difference", 0.0)
        mc.load(m, y, groups, None)
        g = m.gamma(lambda X: np.array(b, dtype=object))
        frames = {}
        for base, fn in rate_for.items():
            mf = fm.MetricFrame(metrics=fn, y_true=y, y_pred=b, sensitive_features=[mc.GROUP_NAMES[k] for k in groups])
            frames[base] = (mf.by_group, mf.overall)
        return m, g, frames

    def on_ok(ctx, out):
        m, g, frames = out
        acc.reach(ctx)
        mapping, problems = mc.index_map(m, name, y, groups, None)
        if problems:
            acc.check(ctx, "index_is_exactly_signed_event_group_pairs", z3.BoolVal(False), signature=f"mf:{name}:index", extra=dict(ex, problems=problems))
            return
        eqs = []
        for e in m.index:
            sign, key, grp = mapping[e]
            if sign != "+":
                continue
            bg, ov = frames[key[1]]
            eqs.append(O.same(g[e], bg[mc.GROUP_NAMES[grp]] - ov))
        acc.check(ctx, "plus_entries_equal_metricframe_by_group_minus_overall", z3.And(eqs), signature=f"mf:{name}", extra=ex)
        acc.canary(ctx, "canary_mf", O.same(g[list(m.index)[0]], 2) if len(m.index) else z3.BoolVal(False))

    acc.explore(run, on_ok, deadline=deadline, max_paths=256, record_funcs=(si == 0))


def _bgl(acc, job, deadline):
    import fairlearn.reductions as red

    y, groups = job["y"], job["groups"]
    n = len(y)
    ex = {"y": y, "groups": groups}
    sym_range = job["loss"] != "zeroone" and (sum(groups) + n) % 2 == 0  # half of the jobs: the value range [min_val, max_val] of the loss is symbolic
    rng = {}

    def mkloss():
        lo, hi = rng["lo"], rng["hi"]
        return {"square": lambda: red.SquareLoss(lo, hi), "absolute": lambda: red.AbsoluteLoss(lo, hi), "zeroone": lambda: red.ZeroOneLoss()}[job["loss"]]()

    def run():
        if sym_range:
            rng["lo"], rng["hi"] = real("lo", -2, 2), real("hi", -2, 3)
            core.cur().assume(rng["lo"].e < rng["hi"].e)
        else:
            rng["lo"], rng["hi"] = 0, 1
        lo, hi = rng["lo"], rng["hi"]
        h = [real(f"h{i}", -1, 2) for i in range(n)]
        ub = real("ub", 0)
        m = red.BoundedGroupLoss(mkloss(), upper_bound=ub)
        X = pd.DataFrame({"f": list(range(n))})
        m.load_data(X, y, sensitive_features=[mc.GROUP_NAMES[g] for g in groups])
        g = m.gamma(lambda X: pd.Series(h, dtype=object))
        ml = m.default_objective()
        ml.load_data(X, y, sensitive_features=[mc.GROUP_NAMES[g] for g in groups])
        gm = ml.gamma(lambda X: pd.Series(h, dtype=object))
        # oracle in proxy arithmetic (clip forks are already decided by the code's own comparisons)
        clip = lambda v: lo if v < lo else (hi if v > hi else v)
        loss = []
        for i in range(n):
            d = clip(y[i]) - clip(h[i])
            loss.append(d * d if job["loss"] == "square" else abs(d))
        want = {gg: sum(loss[i] for i in range(n) if groups[i] == gg) / sum(1 for i in range(n) if groups[i] == gg) for gg in set(groups)}
        want_all = sum(loss) / n
        return m, g, m.bound(), ub, gm, want, want_all, ml

    def on_ok(ctx, out):
        m, g, b, ub, gm, want, want_all, ml = out
        acc.reach(ctx)
        sig = f"bgl:{job['loss']}"
        idx_ok = sorted(g.index) == sorted(mc.GROUP_NAMES[k] for k in set(groups)) and list(b.index) == list(m.index) and len(gm) == 1
        acc.check(ctx, "bgl_index_is_the_groups", z3.BoolVal(bool(idx_ok)), signature=sig + ":index", extra=ex)
        if not idx_ok:
            return
        acc.check_all(ctx, [
            ("bgl_gamma_is_group_mean_clipped_loss", z3.And([O.same(g[mc.GROUP_NAMES[k]], want[k]) for k in want]), sig + ":gamma", ex),
            ("bgl_bound_is_upper_bound", z3.And([O.same(b[e], ub) for e in m.index]), sig + ":bound", ex),
            ("meanloss_gamma_is_overall_mean_loss", O.same(gm.iloc[0], want_all), sig + ":meanloss", ex)])
        acc.canary(ctx, "canary_bgl", O.same(gm.iloc[0], want_all + 1))

    acc.explore(run, on_ok, deadline=deadline, max_paths=2000)


def _err_struct(acc, job, si, y, groups, deadline):
    import fairlearn.reductions as red

    n = len(y)
    ex = {"y": y, "groups": groups}

    def run():
        h = [real(f"h{i}", 0, 1) for i in range(n)]
        cfp, cfn = real("cfp", 0), real("cfn", 0)
        core.cur().assume(cfp.e + cfn.e > 0)
        m = red.ErrorRate(costs={"fp": cfp, "fn": cfn})
        mc.load(m, y, groups, None)
        g = m.gamma(lambda X: np.array(h, dtype=object))
        m1 = red.ErrorRate()
        mc.load(m1, y, groups, None)
        g1 = m1.gamma(lambda X: np.array(h, dtype=object))
        return h, cfp, cfn, g, g1, list(m.index)

    def on_ok(ctx, out):
        h, cfp, cfn, g, g1, idx = out
        acc.reach(ctx)
        pos = lambda t: z3.If(t > 0, t, z3.RealVal(0))
        fn_ = core.zsum([pos(z3.RealVal(y[i]) - term(h[i])) for i in range(n)])
        fp_ = core.zsum([pos(term(h[i]) - z3.RealVal(y[i])) for i in range(n)])
        acc.check_all(ctx, [
            ("errorrate_index_single_entry", z3.BoolVal(len(idx) == 1 and len(g) == 1), "err:index", ex),
            ("errorrate_gamma_is_cost_weighted_error", term(g.iloc[0]) == (term(cfn) * fn_ + term(cfp) * fp_) / n, "err:gamma:costs", ex),
            ("errorrate_default_costs_are_one", term(g1.iloc[0]) == (fn_ + fp_) / n, "err:gamma:default", ex)])
        acc.canary(ctx, "canary_err", term(g1.iloc[0]) == (fn_ + fp_) / n + 1)

    acc.explore(run, on_ok, deadline=deadline, max_paths=512, record_funcs=(si == 0))


# ---- replay ------------------------------------------------------------------------------------------
def replay(cex):
    import fairlearn.reductions as red
    from fractions import Fraction as Fr

    job, mdl, ex = cex["job"], cex["model"], cex["extra"]
    mc.set_group_order(job["id"])
    kind = job["kind"]
    bad = []
    if kind in ("parity", "mf"):
        y, groups, ctrl = ex["y"], ex["groups"], ex.get("ctrl")
        n = len(y)
        name = job["moment"]
        if kind == "mf":
            h = [Fr(int(F(mdl.get(f"b{i}", "0")))) for i in range(n)]
            r, bound_val, m = Fr(1), Fr(0), mc.make_moment(name, "difference", 0.0)
        else:
            h = [F(mdl.get(f"h{i}", "0")) for i in range(n)]
            if job["bound"] == "ratio":
                r, bound_val = F(mdl.get("r", "1")), F(mdl.get("slack", "0"))
                m = mc.make_moment(name, "ratio", float(r), float(bound_val))
            else:
                r, bound_val = Fr(1), F(mdl.get("eps", "0"))
                m = mc.make_moment(name, "difference", float(bound_val))
        try:
            mc.load(m, y, groups, ctrl)
            g = m.gamma(lambda X: np.array([float(v) for v in h]))
            b = m.bound()
        except Exception as e:
            return {"reproduced": True, "signature": f"parity:{name}:exception", "detail": f"raised {type(e).__name__}: {e} on {ex}"}
        mapping, problems = mc.index_map(m, name, y, groups, ctrl)
        if problems:
            return {"reproduced": True, "detail": f"index problems {problems} on {ex}; index={list(m.index)}"}
        ev = mc.events_of(name, y, ctrl)
        u = [(1 - h[i]) if (name == "ErrorRateParity" and y[i] == 1) else h[i] for i in range(n)]
        for e in m.index:
            sign, key, grp = mapping[e]
            rows_e = [i for i in range(n) if ev[i] == key]
            rows = [i for i in rows_e if groups[i] == grp]
            me = sum(u[i] for i in rows_e) / len(rows_e)
            meg = sum(u[i] for i in rows) / len(rows)
            want = r * meg - me if sign == "+" else r * me - meg
            if abs(float(g[e]) - float(want)) > 1e-9:
                bad.append(f"gamma{e}={float(g[e])} documented {float(want)}")
            if abs(float(b[e]) - float(bound_val)) > 1e-12:
                bad.append(f"bound{e}={float(b[e])} configured slack {float(bound_val)}")
        return {"reproduced": bool(bad), "detail": "; ".join(bad)[:600] + f" | {ex} h={[str(v) for v in h]} r={r}"}
    if kind == "err":
        y, groups = ex["y"], ex["groups"]
        n = len(y)
        h = [F(mdl.get(f"h{i}", "0")) for i in range(n)]
        cfp, cfn = F(mdl.get("cfp", "1")), F(mdl.get("cfn", "1"))
        m = red.ErrorRate(costs={"fp": float(cfp), "fn": float(cfn)})
        mc.load(m, y, groups, None)
        g = float(m.gamma(lambda X: np.array([float(v) for v in h])).iloc[0])
        want = float(sum(cfn * max(y[i] - h[i], 0) + cfp * max(h[i] - y[i], 0) for i in range(n)) / n)
        m1 = red.ErrorRate()
        mc.load(m1, y, groups, None)
        g1 = float(m1.gamma(lambda X: np.array([float(v) for v in h])).iloc[0])
        want1 = float(sum(max(y[i] - h[i], 0) + max(h[i] - y[i], 0) for i in range(n)) / n)
        if abs(g - want) > 1e-9:
            bad.append(f"ErrorRate(costs).gamma={g} expected {want}")
        if abs(g1 - want1) > 1e-9:
            bad.append(f"ErrorRate().gamma={g1} expected {want1}")
        return {"reproduced": bool(bad), "detail": "; ".join(bad) + f" | y={y} h={[str(v) for v in h]} cfp={cfp} cfn={cfn}"}
    # bgl
    y, groups = job["y"], job["groups"]
    n = len(y)
    h = [float(F(mdl.get(f"h{i}", "0"))) for i in range(n)]
    ub = float(F(mdl.get("ub", "0")))
    lo_, hi_ = (float(F(mdl["lo"])), float(F(mdl["hi"]))) if "lo" in mdl else (0.0, 1.0)
    mk = {"square": lambda: red.SquareLoss(lo_, hi_), "absolute": lambda: red.AbsoluteLoss(lo_, hi_), "zeroone": lambda: red.ZeroOneLoss()}[job["loss"]]
    m = red.BoundedGroupLoss(mk(), upper_bound=ub)
    X = pd.DataFrame({"f": list(range(n))})
    m.load_data(X, y, sensitive_features=[mc.GROUP_NAMES[g] for g in groups])
    g = m.gamma(lambda X: pd.Series(h))
    clip = lambda v: min(max(v, lo_), hi_)
    loss = [(clip(y[i]) - clip(h[i])) ** 2 if job["loss"] == "square" else abs(clip(y[i]) - clip(h[i])) for i in range(n)]
    for k in set(groups):
        want = sum(loss[i] for i in range(n) if groups[i] == k) / sum(1 for i in range(n) if groups[i] == k)
        if abs(float(g[mc.GROUP_NAMES[k]]) - want) > 1e-9:
            bad.append(f"BGL gamma[{mc.GROUP_NAMES[k]}]={float(g[mc.GROUP_NAMES[k]])} expected {want}")
    if any(abs(float(v) - ub) > 1e-12 for v in m.bound()):
        bad.append("bound != upper_bound")
    ml = m.default_objective()
    ml.load_data(X, y, sensitive_features=[mc.GROUP_NAMES[g] for g in groups])
    gm = float(ml.gamma(lambda X: pd.Series(h)).iloc[0])
    if abs(gm - sum(loss) / n) > 1e-9:
        bad.append(f"MeanLoss gamma={gm} expected {sum(loss) / n}")
    return {"reproduced": bool(bad), "detail": "; ".join(bad) + f" | y={y} groups={groups} h={h}"}
