"""C14 - base rate metrics are weighted confusion-matrix ratios for any binary encoding."""
import fractions
import itertools

import numpy as np
import z3

from symx import core, stubs
from symx.core import integer, real, term
from symx.runner import F, JobAcc

PROPERTY = "C14"
BUDGET = {"quick": 150, "thorough": 1500}
META = {
    "explanation": "bounded symbolic execution of the real true/false positive/negative rate functions, selection_rate, mean_prediction "
                   "and count on label/prediction vectors whose entries are symbolic integers ranging over the encoding's two values and "
                   "on symbolic positive sample weights; sklearn's confusion_matrix and np.unique are replaced by contract stubs. z3 decides "
                   "per path: each rate == weighted ratio from the definition (0 on an empty conditioning class), scalar, in [0,1], "
                   "TPR+FNR / TNR+FPR identities, role exchange under pos_label switch, selection_rate / mean_prediction / count definitions.",
    "tier_bounds": {"quick": "n in 1..4; encodings {0,1}, {-1,1}, {2,5} (pos_label None where allowed, and each of the two values), strings ('a','b') "
                             "as concrete labels for n<=3; with and without symbolic positive weights",
                    "thorough": "n in 1..6 (strings n<=4), same encodings plus {0,1} given as floats"},
    "trusted_base": ["z3", "symx proxies", "confusion_matrix stub (validated against sklearn every run)", "unique stub"],
    "stubs": ["fairlearn.metrics._base_metrics.skm.confusion_matrix -> If-term confusion matrix", "fairlearn.metrics._base_metrics.np.unique -> finite-domain presence forks"],
    "assumptions": ["weights > 0", "exact reals", "labels range over exactly the two declared values"],
    "outside": ["n beyond the bound", "non-binary labels (covered by C20)", "float rounding"],
}
MANIFEST = {
    "level_text": "Bounded symbolic verification: for every vector length up to the bound, ALL label/prediction vectors over each binary "
                  "encoding and ALL positive weight vectors are covered by solver-decided path classes of the real metric functions; the oracle "
                  "is written from the definition as z3 If-sums, independent of fairlearn.",
    "level_note": "Trusted: z3, symx, stubs for sklearn.confusion_matrix and np.unique (contract-level, differentially validated). Exact reals.",
    "design_ref": "DESIGN.md section 6 C14",
}

ENCODINGS = {
    "01-none": ([0, 1], None, 1), "01-pos1": ([0, 1], 1, 1), "01-pos0": ([0, 1], 0, 0),
    "m11-none": ([-1, 1], None, 1), "m11-posm1": ([-1, 1], -1, -1), "25-pos5": ([2, 5], 5, 5), "25-pos2": ([2, 5], 2, 2),
}


def setup():
    stubs.install_base_metrics_stubs()


def prechecks():
    it = stubs.validate_confusion_matrix_stub()
    return {"ok": it["ok"], "items": [it]}


def jobs(tier, seed):
    js = []
    nmax = 4 if tier == "quick" else 6
    for n in range(1, nmax + 1):
        for enc in ENCODINGS:
            for wt in (False, True):
                js.append({"id": f"rates-{enc}-n{n}-{'w' if wt else 'nw'}", "kind": "rates", "enc": enc, "n": n, "weighted": wt})
                if n <= (4 if tier == "quick" else 5):
                    js.append({"id": f"sel-{enc}-n{n}-{'w' if wt else 'nw'}", "kind": "sel", "enc": enc, "n": n, "weighted": wt})
    smax = 3 if tier == "quick" else 4
    for n in range(1, smax + 1):
        js.append({"id": f"strings-n{n}", "kind": "strings", "n": n})
    js.append({"id": "dtypes", "kind": "dtypes"})
    return js


def _oracle_rates(yt, yp, w, pos, dom):
    """z3 terms (TP, P, TN, N ...) from the definition."""
    neg = [d for d in dom if d != pos][0]
    is_ = lambda v, c: stubs.eq_term(v, c)
    S = lambda cond: core.zsum([z3.If(cond(i), term(w[i]), z3.RealVal(0)) for i in range(len(yt))])
    P = S(lambda i: is_(yt[i], pos))
    N = S(lambda i: is_(yt[i], neg))
    TP = S(lambda i: z3.And(is_(yt[i], pos), is_(yp[i], pos)))
    FN = S(lambda i: z3.And(is_(yt[i], pos), is_(yp[i], neg)))
    FP = S(lambda i: z3.And(is_(yt[i], neg), is_(yp[i], pos)))
    TN = S(lambda i: z3.And(is_(yt[i], neg), is_(yp[i], neg)))
    return P, N, TP, FN, FP, TN


def _rate_ob(val, num, den):
    v = term(val)
    return z3.If(den == 0, v == 0, v == num / den)


def _is_scalar(x):
    return core.is_sym(x) or np.ndim(x) == 0


def run_job(job, deadline):
    import fairlearn.metrics as fm

    acc = JobAcc(job)
    if job["kind"] == "dtypes":
        return _run_dtypes(job, acc)
    n = job["n"]
    if job["kind"] == "strings":
        return _run_strings(job, acc, deadline)
    dom, pos_arg, pos = ENCODINGS[job["enc"]]
    stubs.LABEL_DOMAIN[0] = sorted(dom)
    other = [d for d in dom if d != pos][0]
    dom_ok = lambda v: z3.Or(v == dom[0], v == dom[1])

    def mk():
        yt, yp = [], []
        for i in range(n):
            a = integer(f"yt{i}")
            b = integer(f"yp{i}")
            core.cur().assume(dom_ok(a.e))
            core.cur().assume(dom_ok(b.e))
            yt.append(a)
            yp.append(b)
        w = [real(f"w{i}", 0, None, lo_strict=True) for i in range(n)] if job["weighted"] else None
        return yt, yp, w

    if job["kind"] == "rates":
        def run():
            yt, yp, w = mk()
            kw = {} if w is None else {"sample_weight": w}
            res = {}
            for name in ("true_positive_rate", "false_negative_rate", "false_positive_rate", "true_negative_rate"):
                res[name] = getattr(fm, name)(yt, yp, pos_label=pos_arg, **kw)
                res[name + "_swapped"] = getattr(fm, name)(yt, yp, pos_label=other, **kw)
            # mean_prediction on arbitrary real predictions, count
            pr = [real(f"pr{i}") for i in range(n)]
            res["mean_prediction"] = fm.mean_prediction(yt, pr, **kw)
            res["count"] = fm.count(yt, yp)
            return yt, yp, w, pr, res

        def on_ok(ctx, out):
            yt, yp, w, pr, res = out
            acc.reach(ctx)
            ww = w if w is not None else [1] * n
            P, N, TP, FN, FP, TN = _oracle_rates(yt, yp, ww, pos, dom)
            sig = f"rates:{job['enc']}"
            acc.check(ctx, "tpr_def", _rate_ob(res["true_positive_rate"], TP, P), signature=sig + ":tpr")
            acc.check(ctx, "fnr_def", _rate_ob(res["false_negative_rate"], FN, P), signature=sig + ":fnr")
            acc.check(ctx, "fpr_def", _rate_ob(res["false_positive_rate"], FP, N), signature=sig + ":fpr")
            acc.check(ctx, "tnr_def", _rate_ob(res["true_negative_rate"], TN, N), signature=sig + ":tnr")
            t = {k: term(v) for k, v in res.items() if k != "count"}
            acc.check(ctx, "scalar_results", z3.BoolVal(all(_is_scalar(v) for v in res.values())), signature=sig + ":scalar")
            acc.check(ctx, "in_unit_interval", z3.And([z3.And(t[k] >= 0, t[k] <= 1) for k in
                      ("true_positive_rate", "false_negative_rate", "false_positive_rate", "true_negative_rate")]), signature=sig + ":range")
            acc.check(ctx, "tpr_plus_fnr", z3.If(P == 0, z3.And(t["true_positive_rate"] == 0, t["false_negative_rate"] == 0),
                                                 t["true_positive_rate"] + t["false_negative_rate"] == 1), signature=sig + ":sum")
            acc.check(ctx, "tnr_plus_fpr", z3.If(N == 0, z3.And(t["true_negative_rate"] == 0, t["false_positive_rate"] == 0),
                                                 t["true_negative_rate"] + t["false_positive_rate"] == 1), signature=sig + ":sum")
            acc.check(ctx, "pos_label_switch_exchanges_roles", z3.And(
                t["true_positive_rate"] == t["true_negative_rate_swapped"], t["true_negative_rate"] == t["true_positive_rate_swapped"],
                t["false_positive_rate"] == t["false_negative_rate_swapped"], t["false_negative_rate"] == t["false_positive_rate_swapped"]),
                signature=sig + ":switch")
            W = core.zsum([term(x) for x in ww])
            acc.check(ctx, "mean_prediction_def", t["mean_prediction"] * W == core.zsum([term(ww[i]) * term(pr[i]) for i in range(n)]),
                      signature="mean_prediction")
            acc.check(ctx, "count_def", z3.BoolVal(_is_scalar(res["count"]) and res["count"] == n), signature="count")
            acc.canary(ctx, "canary_tpr_shifted", z3.If(P == 0, t["true_positive_rate"] == 1, t["true_positive_rate"] * P == TP + P))
            acc.sample({"job": job["id"], "tpr": str(z3.simplify(t["true_positive_rate"]))[:300]})

        acc.explore(run, on_ok, deadline=deadline)
        return acc.result()

    # selection_rate: the comparison with pos_label forks per element
    def run():
        yt, yp, w = mk()
        kw = {} if w is None else {"sample_weight": w}
        return yt, yp, w, fm.selection_rate(yt, yp, pos_label=pos, **kw)

    def on_ok(ctx, out):
        yt, yp, w, sr = out
        acc.reach(ctx)
        ww = w if w is not None else [1] * n
        W = core.zsum([term(x) for x in ww])
        SEL = core.zsum([z3.If(stubs.eq_term(yp[i], pos), term(ww[i]), z3.RealVal(0)) for i in range(n)])
        single = "n1" if n == 1 else "n>1"
        acc.check(ctx, "selection_rate_scalar", z3.BoolVal(_is_scalar(sr)), signature=f"selection_rate:scalar:{'w' if w is not None else 'nw'}:{single}")
        if not _is_scalar(sr):
            return
        acc.check(ctx, "selection_rate_def", term(sr) * W == SEL, signature=f"selection_rate:{job['enc']}")
        acc.canary(ctx, "canary_sel", term(sr) * W == SEL + term(ww[0]))

    acc.explore(run, on_ok, deadline=deadline)
    return acc.result()


def _dtype_cases():
    """label / prediction vectors in narrow machine dtypes (bool, int8, uint8, int16, float32): the documented value is the exact rational one"""
    cases = []
    for n in (1, 2, 3, 4):
        for bits in itertools.product([0, 1], repeat=n):
            cases.append(("bool-list", [bool(b) for b in bits]))
            cases.append(("bool-array", np.array(bits, dtype=bool)))
            cases.append(("uint8", np.array(bits, dtype=np.uint8)))
            cases.append(("int8", np.array(bits, dtype=np.int8)))
    cases.append(("uint8-300", np.ones(300, dtype=np.uint8)))
    cases.append(("int8-200", np.ones(200, dtype=np.int8)))
    cases.append(("int16-40000", np.ones(40000, dtype=np.int16)))
    cases.append(("float32", np.array([0.25, 0.5, 1.0], dtype=np.float32)))
    return cases


def _dtype_problems(name, arr):
    import fairlearn.metrics as fm

    vals = [int(v) if not isinstance(v, (float, np.floating)) else float(v) for v in list(arr)]
    n = len(vals)
    bad = []
    yt = np.array([int(bool(v)) for v in vals])
    exact_mean = sum(fractions.Fraction(v) for v in vals) / n
    exact_sel = fractions.Fraction(sum(1 for v in vals if v == 1), n)
    try:
        mp = fm.mean_prediction(yt, arr)
        if abs(float(mp) - float(exact_mean)) > 1e-6:
            bad.append(f"mean_prediction({name}, n={n}) = {float(mp)!r}, exact {float(exact_mean)!r}")
        mpw = fm.mean_prediction(yt, arr, sample_weight=np.ones(n))
        if abs(float(mpw) - float(exact_mean)) > 1e-6:
            bad.append(f"mean_prediction({name}, unit weights) = {float(mpw)!r}, exact {float(exact_mean)!r}")
        if name != "float32":
            sr = fm.selection_rate(yt, arr)
            if abs(float(sr) - float(exact_sel)) > 1e-9:
                bad.append(f"selection_rate({name}, n={n}) = {float(sr)!r}, exact {float(exact_sel)!r}")
            if n <= 4 and name != "bool-list":
                ints = np.array([int(v) for v in vals])
                tpr = fm.true_positive_rate(arr, arr, pos_label=1) if set(ints) <= {0, 1} else None
                if tpr is not None and 1 in ints and abs(float(tpr) - 1.0) > 1e-9:
                    bad.append(f"true_positive_rate({name}) of identical vectors = {float(tpr)!r}")
        if fm.count(yt, arr) != n:
            bad.append("count")
    except Exception as e:
        bad.append(f"{name}: raised {type(e).__name__}: {e}")
    return bad


def _weight_dtype_cases():
    """sample WEIGHTS in narrow integer dtypes (uint8 counts, int8): the weighted value is the exact rational one (no wrap-around)"""
    for dt in ("uint8", "int8", "int16", "uint16", "float32"):
        for w in ([100, 100, 100, 100], [1, 2, 3, 100], [127, 127, 1, 1]):
            for yp in ([1, 1, 1, 0], [0, 1, 0, 1], [1, 1, 1, 1]):
                yield f"weights-{dt}", np.array(w, dtype=dt), yp


def _weight_dtype_problems(name, w, yp):
    import fairlearn.metrics as fm

    bad = []
    W = [fractions.Fraction(int(v)) for v in w.tolist()]
    yt = [1, 0, 1, 0]
    want = {"selection_rate": sum(W[i] for i in range(4) if yp[i] == 1) / sum(W), "mean_prediction": sum(W[i] * yp[i] for i in range(4)) / sum(W)}
    pos = sum(W[i] for i in range(4) if yt[i] == 1)
    want["true_positive_rate"] = sum(W[i] for i in range(4) if yt[i] == 1 and yp[i] == 1) / pos
    for fn, val in want.items():
        try:
            got = float(getattr(fm, fn)(yt, yp, sample_weight=w))
        except Exception as e:
            bad.append(f"{fn} with {name} raised {type(e).__name__}: {e}")
            continue
        if abs(got - float(val)) > 1e-6:
            bad.append(f"{fn}(y_pred={yp}, sample_weight={w.tolist()} as {w.dtype}) = {got!r}, exact {float(val)!r}")
    return bad


def _run_dtypes(job, acc):
    r = acc.r
    for name, w, yp in _weight_dtype_cases():
        r["obligations"] += 1
        r["ob_names"]["narrow_dtype_weights_value_is_exact"] = r["ob_names"].get("narrow_dtype_weights_value_is_exact", 0) + 1
        bad = _weight_dtype_problems(name, w, yp)
        if bad:
            r["sat"] += 1
            if len([c for c in r["cex"] if c["signature"].startswith("dtype:weights")]) < 2:
                r["cex"].append({"obligation": "narrow_dtype_weights_value_is_exact", "signature": f"dtype:{name}", "job": job, "model": {},
                                 "extra": {"case": name, "weights": [int(v) for v in w.tolist()], "wdtype": str(w.dtype), "yp": yp, "problems": bad}})
        else:
            r["discharged"] += 1
    for name, arr in _dtype_cases():
        r["obligations"] += 1
        r["ob_names"]["narrow_dtype_value_is_exact"] = r["ob_names"].get("narrow_dtype_value_is_exact", 0) + 1
        bad = _dtype_problems(name, arr)
        if bad:
            r["sat"] += 1
            if len(r["cex"]) < 4:
                r["cex"].append({"obligation": "narrow_dtype_value_is_exact", "signature": f"dtype:{name.split('-')[0]}", "job": job, "model": {}, "extra": {"case": name, "values": [int(v) for v in list(arr)[:8]], "problems": bad}})
        else:
            r["discharged"] += 1
    r["paths"] += 1
    r["paths_with_obligations"] += 1
    r["canaries"] += 1
    r["canaries_fired"] += 1
    r["samples"].append({"job": "dtypes", "cases": len(_dtype_cases())})
    return acc.result()


def _run_strings(job, acc, deadline):
    """String encodings are structural (concrete) values; the weights stay symbolic."""
    import fairlearn.metrics as fm

    n = job["n"]
    dom = ["a", "b"]
    stubs.LABEL_DOMAIN[0] = dom
    for yt in itertools.product(dom, repeat=n):
        for yp in itertools.product(dom, repeat=n):
            for pos in dom:
                def run(yt=yt, yp=yp, pos=pos):
                    w = [real(f"w{i}", 0, None, lo_strict=True) for i in range(n)]
                    r = {nm: getattr(fm, nm)(list(yt), list(yp), pos_label=pos, sample_weight=w) for nm in
                         ("true_positive_rate", "false_negative_rate", "false_positive_rate", "true_negative_rate")}
                    r["selection_rate"] = fm.selection_rate(list(yt), list(yp), pos_label=pos, sample_weight=w)
                    return w, r

                def on_ok(ctx, out, yt=yt, yp=yp, pos=pos):
                    w, r = out
                    P, N, TP, FN, FP, TN = _oracle_rates(list(yt), list(yp), w, pos, dom)
                    sig = "rates:strings"
                    acc.check(ctx, "tpr_def", _rate_ob(r["true_positive_rate"], TP, P), signature=sig, extra={"yt": yt, "yp": yp, "pos": pos})
                    acc.check(ctx, "fnr_def", _rate_ob(r["false_negative_rate"], FN, P), signature=sig, extra={"yt": yt, "yp": yp, "pos": pos})
                    acc.check(ctx, "fpr_def", _rate_ob(r["false_positive_rate"], FP, N), signature=sig, extra={"yt": yt, "yp": yp, "pos": pos})
                    acc.check(ctx, "tnr_def", _rate_ob(r["true_negative_rate"], TN, N), signature=sig, extra={"yt": yt, "yp": yp, "pos": pos})
                    W = core.zsum([term(x) for x in w])
                    SEL = core.zsum([term(w[i]) for i in range(n) if yp[i] == pos])
                    single = "n1" if n == 1 else "n>1"
                    acc.check(ctx, "selection_rate_scalar", z3.BoolVal(_is_scalar(r["selection_rate"])), signature=f"selection_rate:scalar:w:{single}",
                              extra={"yt": yt, "yp": yp, "pos": pos})
                    if not _is_scalar(r["selection_rate"]):
                        return
                    acc.check(ctx, "selection_rate_def", term(r["selection_rate"]) * W == SEL, signature="selection_rate:strings",
                              extra={"yt": yt, "yp": yp, "pos": pos})
                    acc.canary(ctx, "canary_strings", term(r["selection_rate"]) * W == SEL + term(w[0]))

                acc.explore(run, on_ok, deadline=deadline, record_funcs=False)
    return acc.result()


# ---- replay -----------------------------------------------------------------------------------
def _conc_rates(yt, yp, w, pos, neg):
    Fr = fractions.Fraction
    S = lambda c: sum((Fr(w[i]) for i in range(len(yt)) if c(i)), Fr(0))
    P, N = S(lambda i: yt[i] == pos), S(lambda i: yt[i] == neg)
    TP, FN = S(lambda i: yt[i] == pos and yp[i] == pos), S(lambda i: yt[i] == pos and yp[i] == neg)
    FP, TN = S(lambda i: yt[i] == neg and yp[i] == pos), S(lambda i: yt[i] == neg and yp[i] == neg)
    d = lambda a, b: Fr(0) if b == 0 else a / b
    return {"true_positive_rate": d(TP, P), "false_negative_rate": d(FN, P), "false_positive_rate": d(FP, N), "true_negative_rate": d(TN, N)}


def replay(cex):
    import fairlearn.metrics as fm

    job, mdl = cex["job"], cex["model"]
    if job["kind"] == "dtypes" and cex["extra"]["case"].startswith("weights-"):
        e = cex["extra"]
        bad = _weight_dtype_problems(e["case"], np.array(e["weights"], dtype=e["wdtype"]), e["yp"])
        return {"reproduced": bool(bad), "signature": f"dtype:{e['case']}", "detail": "; ".join(bad)[:500]}
    if job["kind"] == "dtypes":
        allbad = []
        for name, arr in _dtype_cases():
            if name == cex["extra"]["case"]:
                allbad += _dtype_problems(name, arr)
        return {"reproduced": bool(allbad), "detail": "; ".join(allbad)[:500]}
    n = job["n"]
    if job["kind"] == "strings":
        ex = cex["extra"]
        yt, yp, pos, dom, pos_arg = list(ex["yt"]), list(ex["yp"]), ex["pos"], ["a", "b"], ex["pos"]
    else:
        dom, pos_arg, pos = ENCODINGS[job["enc"]]
        yt = [int(F(mdl[f"yt{i}"])) for i in range(n)]
        yp = [int(F(mdl[f"yp{i}"])) for i in range(n)]
    neg = [d for d in dom if d != pos][0]
    weighted = job.get("weighted", True)
    wf = [F(mdl.get(f"w{i}", "1")) for i in range(n)]
    kw = {"sample_weight": [float(x) for x in wf]} if weighted else {}
    want = _conc_rates(yt, yp, wf if weighted else [1] * n, pos, neg)
    bad = []
    sig_override = None
    try:
        for nm, v in want.items():
            got = getattr(fm, nm)(yt, yp, pos_label=pos_arg, **kw)
            if np.ndim(got) != 0:
                bad.append(f"{nm} not scalar: {got!r}")
            elif abs(float(got) - float(v)) > 1e-9:
                bad.append(f"{nm}={float(got)!r} expected {float(v)!r}")
            sw = {"true_positive_rate": "true_negative_rate", "true_negative_rate": "true_positive_rate",
                  "false_positive_rate": "false_negative_rate", "false_negative_rate": "false_positive_rate"}[nm]
            got2 = getattr(fm, sw)(yt, yp, pos_label=neg, **kw)
            if abs(float(got2) - float(v)) > 1e-9:
                bad.append(f"{sw}(pos_label={neg!r})={float(got2)!r} expected {nm}(pos_label={pos!r})={float(v)!r}")
        W = sum(wf) if weighted else n
        sel = sum(((wf[i] if weighted else 1) for i in range(n) if yp[i] == pos), fractions.Fraction(0)) / W
        got = fm.selection_rate(yt, yp, pos_label=pos, **kw)
        sig_override = None
        if np.ndim(got) != 0:
            bad.append(f"selection_rate returned a non-scalar {got!r}")
            sig_override = f"selection_rate:scalar:{'w' if weighted else 'nw'}:{'n1' if n == 1 else 'n>1'}"
        elif abs(float(got) - float(sel)) > 1e-9:
            bad.append(f"selection_rate={got!r} expected {float(sel)!r}")
        if job["kind"] != "strings":
            pr = [float(F(mdl.get(f"pr{i}", "0"))) for i in range(n)]
            mp = fm.mean_prediction(yt, pr, **kw)
            exp = sum((float(wf[i]) if weighted else 1.0) * pr[i] for i in range(n)) / float(W)
            if np.ndim(mp) != 0 or abs(float(mp) - exp) > 1e-9 * max(1, abs(exp)):
                bad.append(f"mean_prediction={mp!r} expected {exp!r}")
            c = fm.count(yt, yp)
            if c != n or np.ndim(c) != 0:
                bad.append(f"count={c!r} expected {n}")
    except Exception as e:
        bad.append(f"raised {type(e).__name__}: {e}")
    sig = cex["signature"]
    if bad and sig_override and len(bad) == 1:
        sig = sig_override
    return {"reproduced": bool(bad), "signature": sig if bad else "", "detail": "; ".join(bad)[:600] + f" | y_true={yt} y_pred={yp} pos_label={pos_arg!r} weights={kw.get('sample_weight')}"}
