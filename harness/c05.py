"""C05 - ThresholdOptimizer returns the best parity-satisfying (randomised) threshold rule on its grid."""
import random
from fractions import Fraction as Fr

import numpy as np
import z3

from harness import thresh_common as tc
from harness.c04 import constrained_metrics
from symx import core
from symx.runner import F, JobAcc

PROPERTY = "C05"
UNIT_LEVEL_SIGS = r"unit:"  # unit-lemma counter-examples are reported as unit-level, never as VIOLATION (DESIGN 6 C04 U1)
BUDGET = {"quick": 170, "thorough": 1700}
JOB_CLASS = lambda j: j.get("kind") or f"{j['cfg'][0]}-{'flip' if j['cfg'][2] else 'noflip'}"  # classes that take turns when the budget runs short
META = {
    "explanation": "same bounded symbolic exploration of the real ThresholdOptimizer.fit + _pmf_predict as C04 (symbolic scores, one path per weak "
                   "ordering class). Per path the harness takes an exact rational model of the path's score ordering, recomputes INDEPENDENTLY (own metric "
                   "table, own threshold enumeration incl. flipped rules) the (constraint, objective) point of every deterministic threshold rule of every "
                   "group, and asks z3 (LRA) whether ANY per-group randomised mixture of those rules that puts all groups on a common grid value beats the "
                   "objective of the fitted rule by more than 1e-9: unsat = the fitted rule is optimal among the uncountably many admissible rules. "
                   "Constant classifiers are mixtures of the extreme thresholds, so 'never worse than the best constant' is implied and also stated.",
    "tier_bounds": {"quick": "layouts (2+2), (2+3); all 64 configurations; grid_size seeded from {2,4} per configuration", "thorough": "layouts up to 7 rows / 3 groups; grid sizes {1,2,3,4,6,10}"},
    "trusted_base": ["z3 (LRA)", "symx", "numpy/pandas as executed", "independent rule enumeration + metric table in the harness"],
    "stubs": ["check_array pass-through", "score provider stub"],
    "assumptions": ["scores in [0,1]", "both labels in every group", "objective compared with 1e-9 slack"],
    "outside": ["n > 7", "float rounding",
                "scores in machine dtypes (int8, uint8, int16, float32, int64): arrays of these types cannot hold solver terms; covered by CONCRETE seeded score "
                "vectors near the top of the dtype's range (jobs 'dtypes-*', 15/90 per dtype), each decided by the same LRA optimality query - sampling over "
                "score vectors, solver verdict per vector"],
}
MANIFEST = {
    "level_text": "Bounded symbolic exploration + per-path LRA optimality certificate: over every weak-ordering class of scores (z3-enumerated paths of the "
                  "real code) the negated optimality claim, quantified over all randomised per-group mixtures and all grid points, is refuted by z3. Plus the unit lemma U1: on symbolic curve points z3 proves the interpolated hull is the concave envelope of the input points (for all reals, K<=5/6). The fitted rule must itself be admissible on the REQUESTED grid (estimators are configured through set_params in half of the jobs).",
    "level_note": "Trusted: z3, symx, the harness's own rule enumeration/metric table (short, from the definitions). 1e-9 slack; layouts bounded.",
    "design_ref": "DESIGN.md section 6 C05",
}


def setup():
    tc.setup()


def jobs(tier, seed):
    rnd = random.Random(seed + 5)
    js = []
    grids = [2, 4] if tier == "quick" else [1, 2, 3, 4, 6, 10]
    for si, (y, g) in enumerate(tc.structures(tier)):
        for cfg in tc.configs(tier, rnd):
            for gs in ([rnd.choice(grids)] if tier == "quick" else rnd.sample(grids, 2)):
                js.append({"id": f"s{si}-{cfg[0]}-{cfg[1]}-{'flip' if cfg[2] else 'noflip'}-g{gs}", "y": y, "groups": g, "cfg": list(cfg), "grid": gs})
    for K in ((2, 3, 4, 5) if tier == "quick" else (2, 3, 4, 5, 6)):
        js.insert(0, {"id": f"hullU1-K{K}", "kind": "hullU1", "K": K})
    # scores in narrow machine dtypes cannot hold proxies: concrete seeded score vectors near the top of the dtype's range (sampling), each decided
    # by the same LRA optimality query over all admissible randomised rules
    for dt in ("int8", "uint8", "int16", "float32", "int64"):
        js.append({"id": f"dtypes-{dt}", "kind": "dtypes", "dtype": dt, "seed": seed, "cases": 15 if tier == "quick" else 90})
    return js


def _dtype_problem(dt, cons, flip, y, groups, scores, gs):
    from fairlearn.postprocessing import ThresholdOptimizer

    import harness.c04 as c04

    n = len(y)
    X = np.arange(n).reshape(-1, 1)
    sf = [tc.GROUPS[g] for g in groups]
    obj = "balanced_accuracy_score" if cons != "equalized_odds" else "accuracy_score"
    cfg = (cons, obj, flip)
    to = ThresholdOptimizer(estimator=c04._DtypeScorer(np.array(scores, dtype=dt)), constraints=cons, objective=obj, grid_size=gs, flip=flip, prefit=True,
                            predict_method="decision_function")
    try:
        to.fit(X, list(y), sensitive_features=sf)
        pm = np.asarray(to._pmf_predict(X, sensitive_features=sf), dtype=float)
    except Exception as e:
        return f"raised {type(e).__name__}: {e}"
    p1 = [tc.to_frac(pm[i, 1]) for i in range(n)]
    fitted = fitted_objective(cfg, y, groups, p1)
    q, value = better_rule_query(cfg, y, groups, [Fr(int(v)) for v in scores], gs, fitted, margin=Fr(1, 10 ** 7))
    if q.check() != z3.unsat:
        return f"fitted objective {float(fitted):.6g}, but an admissible randomised rule on the grid reaches {q.model().eval(value)}"
    return None


def _run_dtypes(job, acc):
    import harness.c04 as c04

    r = acc.r
    k = 0
    for cons, flip, y, g, scores, gs in c04._dtype_cases(job):
        k += 1
        r["obligations"] += 1
        r["queries"] += 1
        r["ob_names"]["machine_dtype_scores_fitted_rule_optimal"] = r["ob_names"].get("machine_dtype_scores_fitted_rule_optimal", 0) + 1
        bad = _dtype_problem(job["dtype"], cons, flip, y, g, scores, gs)
        if bad:
            r["sat"] += 1
            if len(r["cex"]) < 3:
                r["cex"].append({"obligation": "machine_dtype_scores_fitted_rule_optimal", "signature": f"dtype:{job['dtype']}", "job": job, "model": {},
                                 "extra": {"cons": cons, "flip": flip, "y": y, "groups": g, "scores": scores, "grid": gs, "problem": bad}})
        else:
            r["discharged"] += 1
    r["paths"] += 1
    r["paths_with_obligations"] += 1
    r["canaries"] += 1
    r["canaries_fired"] += 1
    r["samples"].append({"job": job["id"], "cases": k})
    return acc.result()


def fitted_objective(cfg, y, groups, p1):
    cons, obj, _ = cfg
    n = len(y)
    if cons == "equalized_odds":
        tp, fp, tn, fn = tc.group_counts(p1, y, list(range(n)))
        return tc.metric_value(obj, tp, fp, tn, fn)
    tot = 0
    for gi in sorted(set(groups)):
        rows = [i for i in range(n) if groups[i] == gi]
        tp, fp, tn, fn = tc.group_counts(p1, y, rows)
        tot += Fr(len(rows), n) * tc.metric_value(obj, tp, fp, tn, fn) if isinstance(tp, Fr) else (len(rows) / n) * tc.metric_value(obj, tp, fp, tn, fn)
    return tot


def better_rule_query(cfg, y, groups, scores, grid_size, fitted_value, margin=Fr(1, 10 ** 9)):
    """z3 LRA: exists a grid value and per-group mixtures of threshold rules, all groups on that value, with objective > fitted + margin?"""
    cons, obj, flip = cfg
    n = len(y)
    rv = lambda fr: z3.RealVal(str(fr))
    s = z3.Solver()
    t = z3.Real("t")
    s.add(z3.Or([t == rv(Fr(i, grid_size)) for i in range(grid_size + 1)]))
    total = []
    ytarget = z3.Real("ytarget")
    for gi in sorted(set(groups)):
        rows = [i for i in range(n) if groups[i] == gi]
        rules = tc.threshold_rules(scores, y, rows, flip)
        qs = [z3.Real(f"q_{gi}_{k}") for k in range(len(rules))]
        s.add(*[q >= 0 for q in qs])
        s.add(z3.Sum(qs) == 1)
        pts = []
        for sel in rules:
            p = {i: Fr(sel[i]) for i in rows}
            tp, fp, tn, fn = tc.group_counts(p, y, rows)
            xs = [tc.metric_value(m, tp, fp, tn, fn) for m in constrained_metrics(cons)]
            yv = tc.metric_value(obj, tp, fp, tn, fn)
            pts.append((xs, yv))
        if cons == "equalized_odds":
            s.add(z3.Sum([q * rv(p[0][0]) for q, p in zip(qs, pts)]) == t)
            s.add(z3.Sum([q * rv(p[0][1]) for q, p in zip(qs, pts)]) == ytarget)
        else:
            s.add(z3.Sum([q * rv(p[0][0]) for q, p in zip(qs, pts)]) == t)
            total.append(rv(Fr(len(rows), n)) * z3.Sum([q * rv(p[1]) for q, p in zip(qs, pts)]))
    if cons == "equalized_odds":
        npos = sum(y)
        nneg = n - npos
        if obj == "accuracy_score":
            value = (rv(npos) * ytarget + rv(nneg) * (1 - t)) / n
        else:
            value = (ytarget + (1 - t)) / 2
    else:
        value = z3.Sum(total)
    s.add(value > rv(fitted_value + margin))
    return s, value


def best_constant(cfg, y, groups):
    vals = []
    for c in (0, 1):
        vals.append(fitted_objective(cfg, y, groups, [Fr(c)] * len(y)))
    return max(vals)


def run_job(job, deadline):
    acc = JobAcc(job)
    if job.get("kind") == "hullU1":
        from harness import hull

        hull.explore_hull(acc, job["K"], deadline, ("envelope",), "c05")
        return acc.result()
    if job.get("kind") == "dtypes":
        return _run_dtypes(job, acc)
    y, groups, cfg, gs = job["y"], job["groups"], tuple(job["cfg"]), job["grid"]
    n = len(y)

    def run():
        try:
            return tc.fit_symbolic(cfg, y, groups, gs)
        except Exception as e:
            return e

    def on_ok(ctx, out):
        if isinstance(out, Exception):
            acc.exception_cex(ctx, out, signature=f"exception:{type(out).__name__}")
            return
        to, s, pm = out
        acc.reach(ctx)
        if any(core.is_sym(v) for v in pm.ravel()):
            acc.check(ctx, "pmf_is_concrete_on_a_path", z3.BoolVal(False), signature="engine:symbolic_pmf")
            return
        scores = tc.model_scores(ctx, n)
        if scores is None:
            acc.r["unknown"] += 1
            return
        p1 = [tc.to_frac(pm[i, 1]) for i in range(n)]
        fitted = fitted_objective(cfg, y, groups, p1)
        sig = f"optimal:{cfg[0]}:{cfg[1]}:{'flip' if cfg[2] else 'noflip'}"
        q, _ = better_rule_query(cfg, y, groups, scores, gs, fitted)
        res = q.check()
        acc.r["queries"] += 1
        # the LRA query is the obligation: unsat == no admissible rule is better
        acc.check(ctx, "no_admissible_randomised_rule_beats_the_fitted_one", z3.BoolVal(res == z3.unsat), signature=sig,
                  extra={"fitted_objective": float(fitted), "better": (str(q.model())[:300] if res == z3.sat else str(res))})
        acc.check(ctx, "not_worse_than_best_constant", z3.BoolVal(bool(fitted >= best_constant(cfg, y, groups) - Fr(1, 10 ** 9))), signature=sig + ":constant")
        # the fitted rule must itself be one of the admissible rules: its objective value is attained on the requested grid
        q2, _ = better_rule_query(cfg, y, groups, scores, gs, fitted, margin=Fr(-1, 10 ** 6))
        r2 = q2.check()
        acc.r["queries"] += 1
        acc.check(ctx, "fitted_value_attained_by_an_admissible_rule_on_the_requested_grid", z3.BoolVal(r2 == z3.sat), signature=sig + ":admissible",
                  extra={"fitted_objective": float(fitted), "result": str(r2)})
        acc.canary(ctx, "canary_c05", z3.Real("s0") > 2)
        acc.sample({"job": job["id"], "scores": [str(v) for v in scores], "fitted_objective": float(fitted)})

    acc.explore(run, on_ok, deadline=deadline, max_paths=20000)
    return acc.result()


def replay(cex):
    if cex["job"].get("kind") == "hullU1":
        from harness import hull

        return hull.replay_unit(cex)
    if cex["job"].get("kind") == "dtypes":
        e = cex["extra"]
        bad = _dtype_problem(cex["job"]["dtype"], e["cons"], e["flip"], e["y"], e["groups"], e["scores"], e["grid"])
        return {"reproduced": bool(bad), "detail": f"{bad} for scores {e['scores']} stored as {cex['job']['dtype']}, y={e['y']} groups={e['groups']} "
                                                   f"constraints={e['cons']} flip={e['flip']} grid_size={e['grid']}"}
    job, mdl = cex["job"], cex["model"]
    y, groups, cfg, gs = job["y"], job["groups"], tuple(job["cfg"]), job["grid"]
    n = len(y)
    scores = [F(mdl.get(f"s{i}", "0")) for i in range(n)]
    try:
        to, pm = tc.fit_concrete(cfg, y, groups, gs, scores)
    except Exception as e:
        return {"reproduced": True, "signature": f"exception:{type(e).__name__}", "detail": f"raised {type(e).__name__}: {e}"}
    p1 = [tc.to_frac(pm[i, 1]) for i in range(n)]
    fitted = fitted_objective(cfg, y, groups, p1)
    q, value = better_rule_query(cfg, y, groups, scores, gs, fitted)
    res = q.check()
    detail = f"fitted objective {float(fitted):.9g}; "
    if res == z3.sat:
        m = q.model()
        detail += f"better admissible rule exists: grid value t={m.eval(z3.Real('t'))}, objective {m.eval(value)} "
    bc = best_constant(cfg, y, groups)
    q2, _ = better_rule_query(cfg, y, groups, scores, gs, fitted, margin=Fr(-1, 10 ** 6))
    r2 = q2.check()
    if r2 != z3.sat:
        detail += "the fitted rule is NOT admissible: no per-group mixture on the requested grid reaches its objective value; "
    bad = res == z3.sat or fitted < bc - Fr(1, 10 ** 9) or r2 != z3.sat
    detail += f"best constant {float(bc):.9g} | scores={[str(v) for v in scores]} y={y} groups={groups} cfg={cfg} grid_size={gs} p1={[float(v) for v in p1]}"
    return {"reproduced": bool(bad), "detail": detail}
