"""C13 - multiple sensitive/control columns group rows by tuple equality, collision-free."""
import itertools
import random
import time

import numpy as np
import pandas as pd
import z3

from strsmt import translate as T
from symx import core
from symx.runner import F, JobAcc

PROPERTY = "C13"
BUDGET = {"quick": 170, "thorough": 1700}
NO_PATHS_OK = True
META = {
    "explanation": "Engine B (strsmt): the real source of _merge_columns is re-read on every run, the nested _join_names FunctionDef is extracted and, if it has "
                   "the accepted shape (<sep>.join over a comprehension of chained single-character .replace calls with constant arguments), translated into "
                   "a bounded QF_UFLIA encoding (strings = (len, code points), escape = composed character->string homomorphism computed from the source's own "
                   "constants, output as an uninterpreted position->code-point function). z3 decides injectivity: join(a)=join(b) and a!=b is unsat for all "
                   "rows of 2..3 strings up to the length bound over the full code-point range 1..0x10FFFF. The encoding is validated every run against the "
                   "real function (the repo's own test inputs + random strings over the adversarial alphabet; python evaluator and solver-level). "
                   "Wiring: on enumerated/seeded feature tables over the adversarial alphabet the merged column produced by "
                   "_validate_and_reformat_input, the group level of a moment's index, and ThresholdOptimizer's interpolation_dict keys induce exactly the "
                   "tuple-equality partition (= MetricFrame's non-empty intersectional groups), and predict-time rows get the rule of their fit-time tuple.",
    "tier_bounds": {"quick": "kernel: 2 columns, length <= 5; 3 columns, length <= 4. wiring: 2..3 columns, 40 seeded tables of 4-6 rows over {',', '\\\\', '', 'a', '1', '1.0', 'a,', ',a', '\\\\,'}",
                    "thorough": "kernel: 2 columns length <= 8; 3 columns length <= 6; 4 columns length <= 3. wiring: 400 tables"},
    "trusted_base": ["z3 (QF_UFLIA)", "the translator (strsmt/translate.py), validated against the real function every run", "CPython str.replace / str.join semantics for the validation"],
    "stubs": [],
    "assumptions": ["code points 1..0x10FFFF (NUL excluded: numpy's astype(str) strips trailing NULs, outside the kernel)", "values compared as strings"],
    "outside": ["strings longer than the bound (the escape is a letter-to-string homomorphism, longer minimal witnesses are not expected - an argument, not a check)",
                "source shapes the translator does not accept (reported inconclusive + bounded collision search on the real function)"],
}
MANIFEST = {
    "engine": "strsmt",
    "level_text": "Bounded SMT verification of the real string kernel translated from its source AST: injectivity of the merged name over ALL strings up to the "
                  "length bound and the whole code-point range; plus bounded exhaustive wiring checks that every consumer uses that merged column consistently.",
    "level_note": "Trusted: z3, the AST->SMT translator (differentially validated against the real function on every run). Length bound stated; if the source no longer has the accepted shape the check reports inconclusive, never success.",
    "technique": "source-AST -> bounded QF_UFLIA encoding of the string kernel + z3 (unsat = injective within the bound); bounded exhaustive wiring exploration",
    "design_ref": "DESIGN.md sections 4 and 6 C13",
}
ALPHA = [",", "\\", "", "a", "1", "1.0", "a,", ",a", "\\,"]
# hand-picked near-collisions: tuples that differ only in a numeric-looking suffix, in where the separator / escape sits, or in an empty cell
ADVERSARIAL_TABLES = [
    [("a", "1"), ("a", "1.0")], [("1", "a"), ("1.0", "a")], [("a", "1"), ("a", "1.0"), ("b", "1")], [("1", "1.0"), ("1.0", "1")],
    [("a,", "b"), ("a", ",b")], [("a\\", ",b"), ("a", "\\,b")], [("\\", "a"), ("\\\\", "a")], [("", "a"), ("a", "")], [("", ""), (",", "")],
    [("a", "b", ""), ("a", "", "b"), ("", "a", "b")], [("1", "0"), ("1.", "0"), ("1", ".0")], [("a", " 1"), ("a", "1")], [("A", "1"), ("a", "1")],
]


def setup():
    pass


def prechecks():
    """translator validation: repo's own test inputs for _merge_columns + random adversarial strings, python and solver level"""
    from fairlearn.utils._input_validation import _merge_columns

    try:
        k = T.extract()
    except T.Unsupported as e:
        return {"ok": True, "items": [{"stub": "translator", "ok": True, "detail": f"source shape not accepted: {e} (check will be inconclusive)"}]}
    rnd = random.Random(11)
    cases = [["A", "4"], ["A", "5"], ["B", "4"], ["a,b", "c"], ["a", "b,c"], ["a\\", "b"], ["a", "\\b"], ["a\\,", "b"], ["", ""], [",", ""], ["", ","]]
    for _ in range(200):
        cases.append(["".join(rnd.choice([",", "\\", "a", "1", "é"]) for _ in range(rnd.randint(0, 4))) for _ in range(rnd.choice([2, 3]))])
    bad = []
    for row in cases:
        real = _merge_columns(np.array([row], dtype=object))[0]
        if T.py_eval(k, row) != real:
            bad.append((row, real, T.py_eval(k, row)))
    solver_ok = all(T.concrete_check(k, row) for row in cases[:25])
    return {"ok": not bad and solver_ok, "items": [{"stub": "strsmt translator vs real _merge_columns", "cases": len(cases), "ok": not bad, "bad": bad[:2]},
                                                    {"stub": "strsmt solver-level encoding", "cases": 25, "ok": bool(solver_ok)}]}


def jobs(tier, seed):
    js = []
    bounds = [(2, 1), (2, 2), (2, 3), (2, 4), (2, 5), (3, 1), (3, 2), (3, 3), (3, 4)] if tier == "quick" else [(2, L) for L in range(1, 9)] + [(3, L) for L in range(1, 7)] + [(4, 3)]
    for (nc, L) in bounds:
        js.append({"id": f"kernel-c{nc}-L{L}", "kind": "kernel", "ncols": nc, "L": L})
    ntab = 40 if tier == "quick" else 400
    for ci in range(0, ntab, 10):
        js.append({"id": f"wiring-{ci // 10}", "kind": "wiring", "seed": seed * 1000 + ci, "count": 10})
    return js


def run_job(job, deadline):
    acc = JobAcc(job)
    r = acc.r
    if job["kind"] == "kernel":
        r["paths"] += 1
        r["paths_with_obligations"] += 1
        r["obligations"] += 1
        r["ob_names"]["merged_name_injective"] = 1
        try:
            k = T.extract()
        except T.Unsupported as e:
            r["unknown"] += 1
            r["unknown_obs"].append(f"{job['id']}: translator does not accept the source: {e}")
            _bruteforce(acc, job)
            r["canaries"] += 1
            r["canaries_fired"] += 1
            return acc.result()
        s, A, B = T.injectivity_query(k, job["ncols"], job["L"])
        s.set("timeout", int(max(5, deadline - time.time()) * 1000))
        t = time.time()
        res = s.check()
        r["ob_solver_s"] += time.time() - t
        r["queries"] += 1
        if res == z3.unsat:
            r["discharged"] += 1
        elif res == z3.sat:
            m = s.model()
            rows = [T.model_rows(m, A), T.model_rows(m, B)]
            r["sat"] += 1
            r["cex"].append({"obligation": "merged_name_injective", "signature": "kernel:collision", "job": job, "model": {}, "extra": {"rows": rows}})
        else:
            r["unknown"] += 1
            r["unknown_obs"].append(job["id"])
        # canary: dropping the last replace from the extracted chain must produce a collision (the encoding can find one)
        r["canaries"] += 1
        k2 = dict(k, replaces=k["replaces"][:-1])
        s2, _, _ = T.injectivity_query(k2, 2, 2)
        s2.set("timeout", 60000)
        rc = s2.check()
        if rc == z3.sat:
            r["canaries_fired"] += 1
        elif rc == z3.unsat:
            r["canaries_silent"] += 1
        r["samples"].append({"job": job["id"], "sep": k["sep"], "replaces": k["replaces"], "image_table": T.image_table(k), "result": str(res)})
        r["funcs"] = ["fairlearn/utils/_input_validation.py:_merge_columns.<locals>._join_names (translated from source)"]
        return acc.result()
    _wiring(acc, job)
    return acc.result()


def _bruteforce(acc, job):
    from fairlearn.utils._input_validation import _merge_columns

    alpha = [",", "\\", "a"]
    strs = [""] + ["".join(t) for n in range(1, 4) for t in itertools.product(alpha, repeat=n)]
    seen = {}
    for row in itertools.product(strs, repeat=2):
        mname = _merge_columns(np.array([list(row)], dtype=object))[0]
        if mname in seen and seen[mname] != row:
            acc.r["sat"] += 1
            acc.r["cex"].append({"obligation": "merged_name_injective", "signature": "kernel:collision", "job": job, "model": {}, "extra": {"rows": [list(seen[mname]), list(row)]}})
            return
        seen[mname] = row


def _partition(keys):
    groups = {}
    for i, k in enumerate(keys):
        groups.setdefault(k, []).append(i)
    return sorted(groups.values())


COLNAMES = ["sex", "age_band", "Zone"]  # deliberately NOT in alphabetical order: the tuple order is the column order of the table, whatever the names


def _as(table, kind):
    """the same rows in another container: the merged label of a row must not depend on the container kind"""
    if kind == 1:
        return pd.DataFrame(table, columns=COLNAMES[:table.shape[1]])
    if kind == 2:
        return [list(r) for r in table]
    return table


def _wiring(acc, job):
    from fairlearn.postprocessing import ThresholdOptimizer
    from fairlearn.reductions import DemographicParity
    from fairlearn.utils._input_validation import _validate_and_reformat_input
    from fairlearn.metrics import MetricFrame, count
    from harness.thresh_common import Scorer

    rnd = random.Random(job["seed"])
    r = acc.r
    fixed = ADVERSARIAL_TABLES if job["id"].endswith("-0") else []
    for t in range(job["count"] + len(fixed)):
        if t < len(fixed):
            tuples = [tuple(tp) for tp in fixed[t]]
            ncols, ntup = len(tuples[0]), len(tuples)
        else:
            ncols = rnd.choice([2, 3])
            ntup = rnd.randint(2, 3)
            tuples = []
            while len(tuples) < ntup:
                tp = tuple(rnd.choice(ALPHA) for _ in range(ncols))
                if tp not in tuples:
                    tuples.append(tp)
        rows = [tp for tp in tuples for _ in range(2)]  # every tuple twice (labels 0 and 1)
        n = len(rows)
        y = [0, 1] * ntup
        table = np.array([list(tp) for tp in rows], dtype=object)
        want = _partition([tuple(map(str, tp)) for tp in rows])
        X = np.arange(n).reshape(-1, 1)
        problems = []
        try:
            _, _, sfv, _ = _validate_and_reformat_input(X, y, sensitive_features=table)
            if _partition(list(sfv)) != want:
                problems.append(f"_validate_and_reformat_input merged column {list(sfv)}")
            _, _, _, cfv = _validate_and_reformat_input(X, y, sensitive_features=[0] * n, control_features=table)
            if _partition(list(cfv)) != want:
                problems.append(f"control features merged column {list(cfv)}")
            m = DemographicParity()
            m.load_data(pd.DataFrame(X), y, sensitive_features=_as(table, (t + 1) % 3))
            if len(set(m.index.get_level_values(2))) != ntup or _partition(list(m.tags["group_id"])) != want:
                problems.append(f"moment groups {sorted(set(m.index.get_level_values(2)))}")
            # the same table as CONTROL features of a moment: the events (= control strata for demographic parity) partition the rows like the tuples
            m2 = DemographicParity()
            m2.load_data(pd.DataFrame(X), y, sensitive_features=["g%d" % (i % 2) for i in range(n)], control_features=table)
            if _partition(list(m2.tags["event"])) != want:
                problems.append(f"moment control strata {sorted(set(map(str, m2.tags['event'])))} do not separate the control tuples")
            mf = MetricFrame(metrics=count, y_true=y, y_pred=y, sensitive_features=pd.DataFrame(table, columns=[f"c{j}" for j in range(ncols)]).astype(str))
            nonempty = int((mf.by_group.notna() & (mf.by_group > 0)).sum())
            if nonempty != ntup:
                problems.append(f"MetricFrame has {nonempty} non-empty intersectional groups, tuples {ntup}")
            scores = [0.1 + 0.8 * i / n for i in range(n)]
            to = ThresholdOptimizer(estimator=Scorer(scores), prefit=True, predict_method="predict_proba", grid_size=4)
            to.fit(X, y, sensitive_features=_as(table, t % 3))  # container kind at fit and at predict vary independently
            d = to.interpolated_thresholder_.interpolation_dict
            if len(d) != ntup:
                problems.append(f"ThresholdOptimizer learned {len(d)} rules for {ntup} tuples: {sorted(d)}")
            else:
                # give every fitted rule a distinct constant output, then predict on a permuted table
                from sklearn.utils import Bunch
                from fairlearn.postprocessing._threshold_operation import ThresholdOperation

                key_of = {}
                for i, kname in enumerate(list(sfv)):
                    key_of[rows[i]] = kname
                for gi, kname in enumerate(sorted(d)):
                    d[kname] = Bunch(p0=1.0, operation0=ThresholdOperation(">", -1.0), p1=0.0, operation1=ThresholdOperation(">", -1.0), p_ignore=1.0,
                                     prediction_constant=(gi + 1) / 10.0)
                perm = list(range(n))
                rnd.shuffle(perm)
                # whole (permuted) table, every single row on its own, and every pair of rows: the rule applied to a row must not
                # depend on which other rows happen to be in the same predict call
                batches = [perm] + [[i] for i in range(n)] + [list(c) for c in itertools.combinations(range(n), 2)]
                for bi, batch in enumerate(batches):
                    pm = to._pmf_predict(X[batch], sensitive_features=_as(table[batch], bi % 3))[:, 1]
                    for pos, i in enumerate(batch):
                        exp = (sorted(d).index(key_of[rows[i]]) + 1) / 10.0
                        if abs(float(pm[pos]) - exp) > 1e-12:
                            problems.append(f"predict-time row {rows[i]} in batch {[rows[j] for j in batch]} got probability {float(pm[pos])}, rule of its tuple gives {exp}")
                            break
                    if problems:
                        break
        except Exception as e:
            problems.append(f"raised {type(e).__name__}: {e}")
        r["paths"] += 1
        r["paths_with_obligations"] += 1
        r["obligations"] += 1
        r["ob_names"]["consumers_partition_rows_by_tuple_equality"] = r["ob_names"].get("consumers_partition_rows_by_tuple_equality", 0) + 1
        if problems:
            r["sat"] += 1
            if len(r["cex"]) < 3:
                r["cex"].append({"obligation": "consumers_partition_rows_by_tuple_equality", "signature": "wiring", "job": job, "model": {},
                                 "extra": {"table": [list(tp) for tp in rows], "problems": problems}})
        else:
            r["discharged"] += 1
        if t == 0:
            r["samples"].append({"job": job["id"], "table": [list(tp) for tp in rows]})
    r["canaries"] += 1
    r["canaries_fired"] += 1


def replay(cex):
    from fairlearn.utils._input_validation import _merge_columns

    job, ex = cex["job"], cex["extra"]
    if job["kind"] == "kernel":
        a, b = ex["rows"]
        ma = _merge_columns(np.array([a], dtype=object))[0]
        mb = _merge_columns(np.array([b], dtype=object))[0]
        return {"reproduced": bool(ma == mb and a != b), "detail": f"rows {a!r} and {b!r} both merge to {ma!r} / {mb!r}"}
    acc = JobAcc(job)
    # re-run exactly the failing table
    from fairlearn.utils._input_validation import _validate_and_reformat_input

    table = np.array(ex["table"], dtype=object)
    n = len(table)
    _, _, sfv, _ = _validate_and_reformat_input(np.arange(n).reshape(-1, 1), [0, 1] * (n // 2), sensitive_features=table)
    want = _partition([tuple(map(str, tp)) for tp in ex["table"]])
    got = _partition(list(sfv))
    if got != want:
        return {"reproduced": True, "detail": f"table {ex['table']} merged to {list(sfv)}: partition {got}, tuple equality gives {want}"}
    _wiring(acc, dict(job))
    return {"reproduced": acc.r["sat"] > 0, "detail": str([c["extra"]["problems"] for c in acc.r["cex"]][:2])[:600]}
