"""C16 - adversarial training applies the documented projected-gradient update.

Real code executed symbolically: PytorchEngine.train_step and TensorflowEngine.train_step (called unbound on a
stand-in engine object).  The tensor libraries are environment: the module globals `torch` / `tensorflow` point to
object-ndarray tensor stubs whose autograd delivers ARBITRARY symbolic gradient tensors."""
import fractions
import itertools
import types

import numpy as np
import z3

from symx import core
from symx.core import SReal, real, term
from symx.runner import F, JobAcc

PROPERTY = "C16"
BUDGET = {"quick": 150, "thorough": 1200}
NO_CANARY = False
META = {
    "explanation": "bounded symbolic execution of the real PytorchEngine.train_step / TensorflowEngine.train_step on a tensor-library "
                   "stub (object ndarrays of z3 Real terms): both backward passes / tape gradients deliver arbitrary symbolic gradient "
                   "tensors, alpha>=0, the regulariser tiny>0 and N=||dLA|| (N>=0, N^2=sum of squares) are symbolic. z3 decides per "
                   "parameter tensor: final gradient == dLP - <u,dLP>_F u - alpha*dLA with u=dLA/(N+tiny) (Frobenius product), "
                   "orthogonality for tiny=0, adversary gets its plain gradient, gradient hygiene (zero_grad between the passes), "
                   "each optimiser steps once, equalized-odds adversary input = cat(y_hat, y). The step starts from an ARBITRARY pre-state: "
                   "the .grad buffer of every predictor/adversary parameter holds a free symbolic tensor (left-overs of a backward pass outside "
                   "fairlearn on a user-supplied module), so a step that fails to clear them is refuted by the solver.",
    "tier_bounds": {
        "quick": "tensor shapes (1,),(3,),(1,3),(2,2),(2,3),(3,2); 1..3 parameter tensors (shape combinations sampled by seed: all singles, "
                 "all pairs containing a matrix with >=2 rows, 4 triples); pass_y in {False,True}; both engines",
        "thorough": "adds shapes (4,),(3,3),(4,2),(2,4) and all pairs/ more triples",
    },
    "trusted_base": ["z3 5.1 NRA", "symx proxies", "tensor stub (inner/sum/norm/cat/clone semantics validated against real torch 2.x each run)",
                     "autograd modelled as an arbitrary-gradient oracle with torch's accumulate-into-.grad semantics"],
    "stubs": ["fairlearn.adversarial._pytorch_engine.torch -> object-ndarray tensor stub", "fairlearn.adversarial._tensorflow_engine.tensorflow -> same stub with tf names",
              "_tensorflow_engine.finfo -> symbolic tiny", "models/losses/optimisers: recording stand-ins"],
    "assumptions": ["exact reals", "tiny > 0", "alpha >= 0 (alpha may have been changed by set_params after the engine was created: alpha0 at creation, alpha at the step)", "TensorFlow is not installed: the TF engine is checked on the stub only; TF counter-examples are replayed on a float version of the stub"],
    "outside": ["real network architectures (the update rule is per parameter tensor and does not depend on how gradients arise)", "float32 rounding", "cuda"],
}
MANIFEST = {
    "level_text": "Bounded symbolic verification of one training step from an arbitrary state: for every listed tensor shape and ALL real "
                  "gradient tensors, alpha and tiny, z3 proves that the gradient handed to the predictor's optimiser is the documented "
                  "projected gradient with the Frobenius inner product, and that the adversary follows its plain gradient. One step covers "
                  "training runs of any length because train_step keeps no state of its own.",
    "level_note": "Trusted: z3, symx, the tensor stub (validated against real torch every run); autograd is replaced by an arbitrary-gradient "
                  "oracle. The TensorFlow engine can only be checked against the stub (tensorflow absent). Shapes are bounded as stated.",
    "design_ref": "DESIGN.md section 6 C16",
}


# ---- tensor stub --------------------------------------------------------------------------
class T:
    def __init__(self, a, tag=None):
        self.a = np.asarray(a, dtype=object)
        self.tag = tag

    def detach(self):
        return self

    def clone(self):
        return T(self.a.copy())

    def item(self):
        return self.a.item()

    def numpy(self):
        return self

    @property
    def shape(self):
        return self.a.shape

    def _w(self, o):
        return o.a if isinstance(o, T) else o

    def __add__(self, o):
        return T(self.a + self._w(o))

    def __radd__(self, o):
        return T(self._w(o) + self.a)

    def __sub__(self, o):
        return T(self.a - self._w(o))

    def __rsub__(self, o):
        return T(self._w(o) - self.a)

    def __mul__(self, o):
        return T(self.a * self._w(o))

    def __rmul__(self, o):
        return T(self._w(o) * self.a)

    def __truediv__(self, o):
        return T(self.a / self._w(o))

    def __neg__(self):
        return T(-self.a)

    def sum(self):
        return T(np.sum(self.a))

    def flatten(self):
        return T(self.a.ravel())

    def reshape(self, *s):
        return T(self.a.reshape(*s))

    view = reshape

    def norm(self):
        return _LIB.norm(self)

    @property
    def dtype(self):
        return "float64"

    def clamp(self, min=None, max=None):
        return _LIB.clamp(self, min=min, max=max)

    def dot(self, o):
        return T(np.dot(self.a, o.a))

    def __matmul__(self, o):
        return T(self.a @ o.a)

    def t(self):
        return T(self.a.T)

    @property
    def T_(self):
        return T(self.a.T)


class _Lib:
    """API subset shared by the torch and tensorflow stubs; works on proxies and on plain floats."""

    def __init__(self):
        self.norms = []  # (array, N term) per path

    def reset(self):
        self.norms = []

    def clone(self, t):
        return T(t.a.copy())

    def norm(self, t, *a, **k):
        flat = list(t.a.ravel())
        if not any(core.is_sym(v) for v in flat):
            return T(np.array(float(np.sqrt(float(sum(float(v) ** 2 for v in flat))))))
        c = core.cur()
        N = c.fresh("N")
        ss = core.zsum([term(v) * term(v) for v in flat])
        c.assume(z3.And(N >= 0, N * N == ss))
        self.norms.append((t.a.copy(), N))
        return T(np.array(SReal(N), dtype=object))

    def inner(self, a, b):
        A, B = a.a, b.a
        if A.ndim == 0 or B.ndim == 0:
            return T(A * B)
        return T(np.tensordot(A, B, axes=([-1], [-1])))

    def tensordot(self, a, b, dims=2):
        return T(np.tensordot(a.a, b.a, axes=dims))

    def dot(self, a, b):
        if a.a.ndim != 1 or b.a.ndim != 1:
            raise RuntimeError("1D tensors expected")
        return T(np.dot(a.a, b.a))

    vdot = dot

    def sum(self, t, *a, **k):
        return T(np.sum(t.a))

    reduce_sum = sum

    def mul(self, a, b):
        return T(a.a * b.a)

    multiply = mul

    def flatten(self, t):
        return T(t.a.ravel())

    def cat(self, ts, dim=0, axis=None):
        d = dim if axis is None else axis
        return T(np.concatenate([t.a for t in ts], axis=d), tag=("cat", tuple(t.tag for t in ts), d))

    concat = cat

    def finfo(self, _):
        # tiny: symbolic (>0) regulariser; eps: the float64 machine epsilon (the replay runs real torch in float64)
        eps = float(np.finfo(np.float64).eps)
        if core.is_sym(_TINY[0]):  # symbolic run: a proxy constant with the exact value 2^-52 (a python float this small would be lifted as 0)
            eps = SReal(z3.RealVal("1/4503599627370496"))
        return types.SimpleNamespace(tiny=_TINY[0], eps=eps, max=float(np.finfo(np.float64).max))

    def clamp(self, t, min=None, max=None):
        a = np.asarray(t.a, dtype=object)
        out = np.empty(a.shape, dtype=object)
        for idx in np.ndindex(a.shape) if a.shape else [()]:
            v = a[idx]
            if min is not None:
                lo = min.a.item() if isinstance(min, T) else min
                if v < lo:
                    v = lo
            if max is not None:
                hi = max.a.item() if isinstance(max, T) else max
                if v > hi:
                    v = hi
            out[idx] = v
        return T(out)

    clip = clamp

    def maximum(self, a, b):
        return self.clamp(a, min=b)


_LIB = _Lib()
_TINY = [None]


def _mk_lib_module(kind):
    m = types.SimpleNamespace()
    for name in ("clone", "norm", "inner", "tensordot", "dot", "vdot", "sum", "mul", "flatten", "cat", "finfo", "reduce_sum", "multiply", "concat", "clamp", "clip", "maximum"):
        setattr(m, name, getattr(_LIB, name))
    m.linalg = types.SimpleNamespace(norm=_LIB.norm, vector_norm=_LIB.norm)
    if kind == "tf":
        m.GradientTape = _Tape
    return m


class _Tape:
    cur = None

    def __init__(self, persistent=False):
        self.persistent = persistent

    def __enter__(self):
        _Tape.cur = self
        return self

    def __exit__(self, *a):
        return False

    def gradient(self, loss, variables):
        return [T(g.a.copy()) for g in loss.grads_for(variables)]


class Param:
    def __init__(self, name):
        self.name = name
        self.grad = None


class Env:
    """Scripted environment: models, losses, optimisers for one train_step."""

    def __init__(self, shapes, pass_y, mk):
        self.events = []
        self.pass_y = pass_y
        self.pparams = [Param(f"W{i}") for i in range(len(shapes))]
        self.aparams = [Param("U0")]
        self.gLP = [T(self._arr(f"p{i}", s, mk)) for i, s in enumerate(shapes)]
        self.gLA = [T(self._arr(f"a{i}", s, mk)) for i, s in enumerate(shapes)]
        self.gU = [T(self._arr("u0", (2,), mk))]
        self.yhat = T(self._arr("yh", (2, 1), mk), tag="y_hat")
        self.Y = T(self._arr("y", (2, 1), mk), tag="Y")
        self.A = T(self._arr("s", (2, 1), mk), tag="A")
        self.X = T(self._arr("xin", (2, 1), mk), tag="X")
        self.adv_in = None
        self.adv_loss_args = None
        self.pred_loss_args = None
        self.step_grads = {}
        self.inplace_zero = False
        # pre-state (torch): the .grad buffers of user-supplied modules may hold ANYTHING when a step starts (a backward pass outside fairlearn,
        # pre-training that ended with step() and no zero_grad): arbitrary symbolic buffers
        self.stale = [T(self._arr(f"st{i}", s, mk)) for i, s in enumerate(shapes)]
        self.staleU = [T(self._arr("stu0", (2,), mk))]
        for prm, st in zip(self.pparams + self.aparams, self.stale + self.staleU):
            prm.grad = T(st.a.copy())
        env = self

        class Loss:
            def __init__(s, kind):
                s.kind = kind

            def backward(s, retain_graph=False):
                env.events.append(f"backward_{s.kind}")
                if s.kind == "LP":
                    pairs = list(zip(env.pparams, env.gLP))
                else:
                    pairs = list(zip(env.pparams, env.gLA)) + list(zip(env.aparams, env.gU))
                for p, g in pairs:  # torch semantics: gradients accumulate IN PLACE into an existing .grad buffer (aliases see it)
                    if p.grad is None:
                        p.grad = T(g.a.copy())
                    else:
                        p.grad.a[...] = p.grad.a + g.a

            def grads_for(s, variables):  # tensorflow tape
                env.events.append(f"tape_gradient_{s.kind}_{'pred' if variables is env.pparams else 'adv'}")
                if variables is env.pparams:
                    return env.gLP if s.kind == "LP" else env.gLA
                if s.kind == "LP":
                    return [T(np.zeros(g.a.shape, dtype=object)) for g in env.gU]
                return env.gU

            def item(s):
                return 0.0

            def numpy(s):
                return s

        class Model:
            def __init__(s, kind):
                s.kind = kind
                s.trainable_variables = env.pparams if kind == "pred" else env.aparams

            def train(s):
                env.events.append(f"train_{s.kind}")

            def parameters(s):
                return iter(list(s.trainable_variables))

            def __call__(s, x, training=None):
                if s.kind == "pred":
                    env.pred_in = x
                    return env.yhat
                env.adv_in = x
                return T(np.zeros((2, 1), dtype=object), tag="A_hat")

        class Opt:
            def __init__(s, kind):
                s.kind = kind

            def zero_grad(s):
                env.events.append(f"zero_grad_{s.kind}")
                for p in (env.pparams if s.kind == "pred" else env.aparams):
                    if env.inplace_zero and p.grad is not None:
                        p.grad.a[...] = 0  # a user optimiser with zero_grad(set_to_none=False): the buffer is kept and zeroed in place
                    else:
                        p.grad = None

            def step(s):
                env.events.append(f"step_{s.kind}")
                ps = env.pparams if s.kind == "pred" else env.aparams
                env.step_grads.setdefault(s.kind, []).append([None if p.grad is None else p.grad.a.copy() for p in ps])

            def apply_gradients(s, gv):
                env.events.append(f"step_{s.kind}")
                gv = list(gv)
                ps = env.pparams if s.kind == "pred" else env.aparams
                ok = len(gv) == len(ps) and all(v is p for (_, v), p in zip(gv, ps))
                env.step_grads.setdefault(s.kind, []).append([g.a.copy() for g, _ in gv] if ok else "wrong-variables")

        def ploss(a, b):
            env.pred_loss_args = (a, b)
            return Loss("LP")

        def aloss(a, b):
            env.adv_loss_args = (a, b)
            return Loss("LA")

        self.parts = dict(models={"pred": Model("pred"), "adv": Model("adv")}, opts={"pred": Opt("pred"), "adv": Opt("adv")}, losses={"pred": ploss, "adv": aloss})
        self.engine = None

    def build_engine(self, eng_name, alpha_at_creation, alpha_now):
        """The engine object is created by the REAL BackendEngine.__init__ (through a subclass that only supplies the model / loss / optimiser
        factories), with alpha = alpha_at_creation; afterwards the estimator's parameter is changed to alpha_now (set_params between steps)."""
        from fairlearn.adversarial._backend_engine import BackendEngine
        import fairlearn.adversarial._pytorch_engine as pe
        import fairlearn.adversarial._tensorflow_engine as te

        env = self
        parent = pe.PytorchEngine if eng_name == "torch" else te.TensorflowEngine
        order = {"m": iter(["pred", "adv"]), "l": iter(["pred", "adv"]), "o": iter(["pred", "adv"])}

        class SymEngine(parent):
            model_class = type("M", (), {})
            optim_class = type("O", (), {})

            def get_model(self, list_nodes):
                return env.parts["models"][next(order["m"])]

            def get_loss(self, kw):
                return env.parts["losses"][next(order["l"])]

            def get_optimizer(self, optim_param, model):
                return env.parts["opts"][next(order["o"])]

        base = types.SimpleNamespace(
            alpha=alpha_at_creation, pass_y_=self.pass_y, warm_start=False, predictor_model=[], adversary_model=[], predictor_loss_="binary",
            adversary_loss_="binary", predictor_optimizer="Adam", adversary_optimizer="Adam", learning_rate=0.1, cuda=False,
            _y_transform=types.SimpleNamespace(n_features_out_=1), _sf_transform=types.SimpleNamespace(n_features_out_=1), random_state_=None)
        eng = SymEngine.__new__(SymEngine)
        BackendEngine.__init__(eng, base, np.zeros((2, 1)), None, None)
        base.alpha = alpha_now
        self.engine = eng
        return eng

    @staticmethod
    def _arr(prefix, shape, mk):
        a = np.empty(shape, dtype=object)
        for idx in itertools.product(*[range(k) for k in shape]):
            a[idx] = mk(prefix, idx)
        return a


_orig = {}


def setup():
    import fairlearn.adversarial._pytorch_engine as pe
    import fairlearn.adversarial._tensorflow_engine as te

    _orig.update(pe_torch=pe.torch, te_tf=te.tensorflow, te_finfo=te.finfo)
    pe.torch = _mk_lib_module("torch")
    te.tensorflow = _mk_lib_module("tf")
    te.finfo = _LIB.finfo


def prechecks():
    """The stub's inner/sum/norm/cat agree with real torch on concrete tensors."""
    items = []
    try:
        import torch
    except Exception as e:  # pragma: no cover
        return {"ok": False, "items": [{"stub": "torch", "ok": False, "detail": str(e)}]}
    rng = np.random.default_rng(3)
    for shape in [(3,), (1, 3), (2, 2), (2, 3), (3, 2)]:
        A = rng.integers(-4, 5, size=shape).astype(float)
        B = rng.integers(-4, 5, size=shape).astype(float)
        ta, tb = torch.tensor(A), torch.tensor(B)
        r_in = np.asarray(_LIB.inner(T(A), T(B)).a, dtype=float)
        ok1 = np.allclose(r_in, torch.inner(ta, tb).numpy())
        ok2 = np.isclose(float(_LIB.sum(_LIB.inner(T(A), T(B))).a), float(torch.sum(torch.inner(ta, tb))))
        ok3 = np.isclose(float(_LIB.norm(T(A)).a), float(torch.norm(ta)))
        ok4 = np.isclose(float(_LIB.sum(T(A) * T(B)).a), float(torch.sum(ta * tb)))
        items.append({"stub": "torch tensor ops", "shape": list(shape), "ok": bool(ok1 and ok2 and ok3 and ok4)})
    A = rng.normal(size=(2, 1))
    B = rng.normal(size=(2, 1))
    okc = np.allclose(np.asarray(_LIB.cat((T(A), T(B)), dim=1).a, dtype=float), torch.cat((torch.tensor(A), torch.tensor(B)), dim=1).numpy())
    items.append({"stub": "cat", "ok": bool(okc)})
    return {"ok": all(i["ok"] for i in items), "items": items}


SHAPES_Q = [(1,), (3,), (1, 3), (2, 2), (2, 3), (3, 2)]
SHAPES_T = SHAPES_Q + [(4,), (3, 3), (4, 2), (2, 4)]


def jobs(tier, seed):
    import random

    rnd = random.Random(seed)
    shapes = SHAPES_Q if tier == "quick" else SHAPES_T
    combos = [[s] for s in shapes]
    pairs = [[a, b] for a in shapes for b in shapes]
    if tier == "quick":
        pairs = [p for p in pairs if any(len(s) == 2 and s[0] >= 2 for s in p)]
        rnd.shuffle(pairs)
        pairs = pairs[:8]
        triples = [[rnd.choice(shapes) for _ in range(3)] for _ in range(4)]
    else:
        triples = [[rnd.choice(shapes) for _ in range(3)] for _ in range(20)]
    combos += pairs + triples
    js = []
    for eng in ("torch", "tf"):
        for ci, combo in enumerate(combos):
            for pass_y in (False, True):
                js.append({"id": f"{eng}-{'x'.join('_'.join(map(str, s)) for s in combo)}-{'eo' if pass_y else 'dp'}-{ci}",
                           "engine": eng, "shapes": [list(s) for s in combo], "pass_y": pass_y,
                           # every other torch job: the (user-supplied) optimisers clear gradients in place, torch's zero_grad(set_to_none=False)
                           "inplace_zero": eng == "torch" and ci % 2 == 1})
    return js


def _call_step(eng_name, env):
    if eng_name == "torch":
        import fairlearn.adversarial._pytorch_engine as pe

        return pe.PytorchEngine.train_step(env.engine, env.X, env.Y, env.A)
    import fairlearn.adversarial._tensorflow_engine as te

    return te.TensorflowEngine.train_step(env.engine, env.X, env.Y, env.A)


def _same_terms(a, b):
    a, b = np.asarray(a, dtype=object), np.asarray(b, dtype=object)
    if a.shape != b.shape:
        return False
    return all(z3.eq(z3.simplify(term(x)), z3.simplify(term(y))) for x, y in zip(a.ravel(), b.ravel()))


def run_job(job, deadline):
    acc = JobAcc(job, ob_timeout_ms=60000)
    shapes = [tuple(s) for s in job["shapes"]]

    def run():
        _LIB.reset()
        _TINY[0] = real("tiny", 0, None, lo_strict=True)

        def mk(prefix, idx):
            return real(prefix + "_" + "_".join(map(str, idx)))

        env = Env(shapes, job["pass_y"], mk)
        env.inplace_zero = bool(job.get("inplace_zero"))
        try:
            env.build_engine(job["engine"], real("alpha0", 0), real("alpha", 0))
            _call_step(job["engine"], env)
        except Exception as e:
            return env, e
        return env, None

    def on_ok(ctx, out):
        env, exc = out
        acc.reach(ctx)
        tag = f"{job['engine']}"
        if exc is not None:
            acc.exception_cex(ctx, exc, signature=f"{tag}:exception")
            return
        tiny, alpha = z3.Real("tiny"), z3.Real("alpha")
        ev = env.events
        steps_p = [i for i, e in enumerate(ev) if e == "step_pred"]
        steps_a = [i for i, e in enumerate(ev) if e == "step_adv"]
        once = len(steps_p) == 1 and len(steps_a) == 1
        acc.check(ctx, "each_optimiser_steps_once", z3.BoolVal(once), signature=f"{tag}:schedule", extra={"events": ev})
        if not once:
            return
        got = env.step_grads["pred"][0]
        if isinstance(got, str) or any(g is None for g in got):
            acc.check(ctx, "predictor_gradient_present", z3.BoolVal(False), signature=f"{tag}:grad_missing")
            return
        for i, shp in enumerate(shapes):
            dLP, dLA, g = env.gLP[i].a, env.gLA[i].a, np.asarray(got[i], dtype=object)
            kind = "vector" if (len(shp) == 1 or shp[0] == 1) else "matrix_rows>=2"
            sig = f"{tag}:update:{kind}"
            if g.shape != tuple(shp):
                acc.check(ctx, "update_shape", z3.BoolVal(False), signature=sig)
                continue
            # N: reuse the stub's norm variable if the code took the norm of exactly dLA, else a fresh oracle N
            N = None
            for arr, n in _LIB.norms:
                if _same_terms(arr, dLA):
                    N = n
            extra_as = []
            if N is None:
                N = z3.Real(f"N_oracle_{i}")
                extra_as = [N >= 0, N * N == core.zsum([term(v) * term(v) for v in dLA.ravel()])]
            idxs = list(itertools.product(*[range(k) for k in shp]))
            u = {ix: term(dLA[ix]) / (N + tiny) for ix in idxs}
            frob = core.zsum([u[ix] * term(dLP[ix]) for ix in idxs])
            want = {ix: term(dLP[ix]) - frob * u[ix] - alpha * term(dLA[ix]) for ix in idxs}
            acc.check(ctx, "projected_gradient_formula", z3.And([term(g[ix]) == want[ix] for ix in idxs]), signature=sig,
                      assumptions=extra_as, extra={"tensor": i})
            acc.check(ctx, "orthogonal_when_tiny_is_zero",
                      core.zsum([(term(g[ix]) + alpha * term(dLA[ix])) * term(dLA[ix]) for ix in idxs]) == 0,
                      signature=sig, assumptions=extra_as + [tiny == 0, N > 0], extra={"tensor": i})
            if i == 0:
                acc.canary(ctx, "canary_no_projection", z3.And([term(g[ix]) == term(dLP[ix]) - alpha * term(dLA[ix]) for ix in idxs]))
        ga = env.step_grads["adv"][0]
        ok_adv = (not isinstance(ga, str)) and all(x is not None for x in ga) and len(ga) == 1 and np.asarray(ga[0]).shape == (2,)
        if ok_adv:
            acc.check(ctx, "adversary_plain_gradient", z3.And([term(ga[0][k]) == term(env.gU[0].a[k]) for k in range(2)]), signature=f"{tag}:adversary")
        else:
            acc.check(ctx, "adversary_plain_gradient", z3.BoolVal(False), signature=f"{tag}:adversary")
        # adversary input: y_hat, or cat(y_hat, y) for equalized odds
        x = env.adv_in
        want_in = np.concatenate([env.yhat.a, env.Y.a], axis=1) if job["pass_y"] else env.yhat.a
        ok_in = x is not None and np.asarray(x.a).shape == want_in.shape and _same_terms(x.a, want_in)
        acc.check(ctx, "adversary_input", z3.BoolVal(bool(ok_in)), signature=f"{tag}:adv_input:{'eo' if job['pass_y'] else 'dp'}")
        acc.sample({"job": job["id"], "events": ev, "g[0]": str(z3.simplify(term(np.asarray(got[0]).ravel()[0])))[:200]})

    acc.explore(run, on_ok, deadline=deadline)
    return acc.result()


# ---- replay -------------------------------------------------------------------------------
def _vals(mdl, prefix, shape):
    a = np.zeros(shape)
    for idx in itertools.product(*[range(k) for k in shape]):
        a[idx] = float(F(mdl.get(prefix + "_" + "_".join(map(str, idx)), "0")))
    return a


def replay(cex):
    job, mdl = cex["job"], cex["model"]
    shapes = [tuple(s) for s in job["shapes"]]
    alpha = float(F(mdl.get("alpha", "0")))
    tiny_m = float(F(mdl.get("tiny", "0")))
    GP = [_vals(mdl, f"p{i}", s) for i, s in enumerate(shapes)]
    GA = [_vals(mdl, f"a{i}", s) for i, s in enumerate(shapes)]
    GU = _vals(mdl, "u0", (2,))
    ob = cex["obligation"]

    def expected(i, tiny):
        N = np.sqrt((GA[i] ** 2).sum())
        u = GA[i] / (N + tiny)
        return GP[i] - (u * GP[i]).sum() * u - alpha * GA[i]

    if job["engine"] == "torch":
        # real torch, real autograd, real SGD(lr=1) optimisers, real PytorchEngine.train_step
        import torch
        import fairlearn.adversarial._pytorch_engine as pe

        pe.torch = torch
        torch.set_default_dtype(torch.float64)
        W = [torch.nn.Parameter(torch.zeros(s, dtype=torch.float64)) for s in shapes]
        U = [torch.nn.Parameter(torch.zeros(2, dtype=torch.float64))]
        tGP = [torch.tensor(g) for g in GP]
        tGA = [torch.tensor(g) for g in GA]
        tGU = torch.tensor(GU)
        seen = {}

        class Pred(torch.nn.Module):
            def __init__(s):
                super().__init__()
                s.ws = torch.nn.ParameterList(W)

            def forward(s, x):
                # y_hat carries every parameter linearly: d(sum(W*GP))/dW = GP exactly
                s.lp = sum((w * g).sum() for w, g in zip(s.ws, tGP))
                s.la = sum((w * g).sum() for w, g in zip(s.ws, tGA))
                return torch.stack([s.lp, s.la]).reshape(1, 2)

        class Adv(torch.nn.Module):
            def __init__(s):
                super().__init__()
                s.us = torch.nn.ParameterList(U)

            def forward(s, x):
                seen["adv_in_shape"] = tuple(x.shape)
                return x[:, 1:2].sum() + (s.us[0] * tGU).sum()

        pm, am = Pred(), Adv()
        from fairlearn.adversarial._backend_engine import BackendEngine

        mods = iter([pm, am])
        losses = iter([lambda yh, y: yh[:, 0].sum(), lambda ah, a: ah])

        class RealEngine(pe.PytorchEngine):
            model_class = torch.nn.Module
            optim_class = torch.optim.Optimizer

            def get_model(self, list_nodes):
                return next(mods)

            def get_loss(self, kw):
                return next(losses)

            def get_optimizer(self, optim_param, model):
                if job.get("inplace_zero"):
                    class SGDKeep(torch.optim.SGD):
                        def zero_grad(self, set_to_none=True):
                            super().zero_grad(set_to_none=False)

                    return SGDKeep(model.parameters(), lr=1.0)
                return torch.optim.SGD(model.parameters(), lr=1.0)

        alpha0 = float(F(mdl.get("alpha0", "0")))
        base = types.SimpleNamespace(
            alpha=alpha0, pass_y_=job["pass_y"], warm_start=False, predictor_model=[], adversary_model=[], predictor_loss_="binary", adversary_loss_="binary",
            predictor_optimizer="Adam", adversary_optimizer="Adam", learning_rate=0.1, cuda=False, _y_transform=types.SimpleNamespace(n_features_out_=1),
            _sf_transform=types.SimpleNamespace(n_features_out_=1), random_state_=None)
        eng = RealEngine.__new__(RealEngine)
        BackendEngine.__init__(eng, base, np.zeros((2, 1)), None, None)
        base.alpha = alpha  # parameter changed after the engine was created (set_params between steps)
        X = torch.zeros(1, 1)
        Y = torch.zeros(1, 1)
        A = torch.zeros(1, 1)
        # pre-state: gradient buffers left behind by a backward pass outside fairlearn (user-supplied modules)
        stale = [_vals(mdl, f"st{i}", s) for i, s in enumerate(shapes)]
        for w, st in zip(W, stale):
            w.grad = torch.tensor(st)
        U[0].grad = torch.tensor(_vals(mdl, "stu0", (2,)))
        try:
            pe.PytorchEngine.train_step(eng, X, Y, A)
        except Exception as e:
            return {"reproduced": True, "signature": "torch:exception", "detail": f"real train_step raised {type(e).__name__}: {e}"}
        tiny = torch.finfo(float).tiny
        worst, wi = 0.0, None
        for i, w in enumerate(W):
            delta = -w.detach().numpy()  # SGD lr=1 from zero: W = -grad
            d = float(np.abs(delta - expected(i, tiny)).max())
            if d > worst:
                worst, wi = d, i
        dadv = float(np.abs(-U[0].detach().numpy() - GU).max())
        scale = max(1.0, max(float(np.abs(g).max()) for g in GP + GA)) ** 2
        if ob == "adversary_plain_gradient":
            return {"reproduced": bool(dadv > 1e-9 * scale), "signature": "torch:adversary", "detail": f"adversary update differs from its plain gradient by {dadv:.3g}"}
        if ob == "adversary_input":
            exp_w = 3 if job["pass_y"] else 2
            got_w = seen.get("adv_in_shape", (0, 0))[1]
            return {"reproduced": got_w != exp_w, "signature": cex["signature"], "detail": f"adversary input width {got_w}, expected {exp_w}"}
        if wi is None:
            return {"reproduced": False, "detail": f"real torch update matches the formula (max dev {worst:.3g})"}
        shp = shapes[wi]
        kind = "vector" if (len(shp) == 1 or shp[0] == 1) else "matrix_rows>=2"
        return {"reproduced": bool(worst > 1e-9 * scale), "signature": f"torch:update:{kind}",
                "detail": f"real torch autograd+SGD: parameter tensor {wi} shape {shp} moved by a gradient that differs from dLP-<u,dLP>_F u-alpha*dLA by {worst:.6g}; dLP={GP[wi].tolist()} dLA={GA[wi].tolist()} alpha={alpha} .grad before the step={stale[wi].tolist()} optimiser zero_grad in place={bool(job.get('inplace_zero'))}"}

    # tensorflow engine: tensorflow is not installed -> replay on the float version of the stub (stated weakness)
    import fairlearn.adversarial._tensorflow_engine as te

    te.tensorflow = _mk_lib_module("tf")
    tiny = float(np.finfo(np.float32).tiny)
    _TINY[0] = tiny
    te.finfo = _LIB.finfo

    def mk(prefix, idx):
        return float(F(mdl.get(prefix + "_" + "_".join(map(str, idx)), "0")))

    env = Env(shapes, job["pass_y"], mk)
    try:
        env.build_engine("tf", float(F(mdl.get("alpha0", "0"))), alpha)
        te.TensorflowEngine.train_step(env.engine, env.X, env.Y, env.A)
    except Exception as e:
        return {"reproduced": True, "signature": "tf:exception", "detail": f"train_step on float stub raised {type(e).__name__}: {e}"}
    got = env.step_grads.get("pred", [None])[0]
    if got is None or isinstance(got, str):
        return {"reproduced": True, "signature": "tf:grad_missing", "detail": "no gradients applied to predictor variables"}
    worst, wi = 0.0, 0
    for i in range(len(shapes)):
        d = float(np.abs(np.asarray(got[i], dtype=float) - expected(i, tiny)).max())
        if d > worst:
            worst, wi = d, i
    scale = max(1.0, max(float(np.abs(g).max()) for g in GP + GA)) ** 2
    shp = shapes[wi]
    kind = "vector" if (len(shp) == 1 or shp[0] == 1) else "matrix_rows>=2"
    if ob in ("projected_gradient_formula", "orthogonal_when_tiny_is_zero", "update_shape"):
        return {"reproduced": bool(worst > 1e-9 * scale), "signature": f"tf:update:{kind}",
                "detail": f"(float stub, tensorflow absent) tensor {wi}: applied gradient differs from formula by {worst:.6g}"}
    ga = env.step_grads.get("adv", [None])[0]
    if ob == "adversary_plain_gradient":
        bad = ga is None or isinstance(ga, str) or float(np.abs(np.asarray(ga[0], dtype=float) - GU).max()) > 1e-9
        return {"reproduced": bool(bad), "signature": "tf:adversary", "detail": "adversary gradient differs (float stub)"}
    if ob == "adversary_input":
        w = np.asarray(env.adv_in.a).shape[1] if env.adv_in is not None else 0
        return {"reproduced": w != (2 if job["pass_y"] else 1), "signature": cex["signature"], "detail": f"adversary input width {w}"}
    ev = env.events
    bad = ev.count("step_pred") != 1 or ev.count("step_adv") != 1
    return {"reproduced": bool(bad), "signature": "tf:schedule", "detail": f"events {ev}"}
