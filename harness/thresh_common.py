"""Shared exploration of ThresholdOptimizer.fit + _pmf_predict on symbolic scores (C04, C05, C10, C12)."""
import itertools
import random
from fractions import Fraction as Fr

import numpy as np
import z3

from symx import core, stubs
from symx.core import real, term

SIMPLE = {"selection_rate_parity": "selection_rate", "demographic_parity": "selection_rate", "false_positive_rate_parity": "false_positive_rate",
          "false_negative_rate_parity": "false_negative_rate", "true_positive_rate_parity": "true_positive_rate",
          "true_negative_rate_parity": "true_negative_rate"}
OBJ_SIMPLE = ["selection_rate", "true_positive_rate", "true_negative_rate", "accuracy_score", "balanced_accuracy_score"]
OBJ_EO = ["accuracy_score", "balanced_accuracy_score"]
GROUPS = ["ga", "gb", "gc", "gd", "ge"]

_orig = {}


def setup():
    """check_array pass-through for proxy arrays (otherwise predictions are converted to float64 at predict time)."""
    import fairlearn.utils._input_validation as iv

    if "check_array" in _orig:
        return
    _orig["check_array"] = iv.check_array

    def check_array(a, **kw):
        if stubs.has_sym(a):
            arr = np.asarray(a, dtype=object)
            shadow = np.zeros(arr.shape, dtype=float)
            _orig["check_array"](shadow, **kw)  # the real shape / emptiness checks
            return arr
        return _orig["check_array"](a, **kw)

    iv.check_array = check_array
    # numpy predicates that reject object dtype (isclose / isfinite / isnan) get proxy-aware versions in the post-processing modules
    import fairlearn.postprocessing._tradeoff_curve_utilities as tcu
    import fairlearn.postprocessing._threshold_optimizer as tom
    import fairlearn.postprocessing._interpolated_thresholder as itm

    for mod in (tcu, tom, itm):
        if not isinstance(mod.np, stubs.NpStub):
            mod.np = stubs.NpStub(np)


from sklearn.base import BaseEstimator, ClassifierMixin  # noqa: E402


class Scorer(ClassifierMixin, BaseEstimator):
    """score provider: returns the scores it was given (row id = X[:,0])."""

    def __init__(self, scores=None):
        self.scores = scores

    def __sklearn_is_fitted__(self):
        return True

    def fit(self, X, y, **kw):
        self.fitted_ = True
        return self

    def _scores(self, X):
        idx = [int(v) for v in np.asarray(X)[:, 0]]
        s = np.array([self.scores[i] for i in idx], dtype=object)
        if not stubs.has_sym(s):
            s = s.astype(float)
        return s

    def predict_proba(self, X):
        s = self._scores(X)
        return np.stack([1 - s, s], axis=1)


class MultiScorer(Scorer):
    """offers several prediction methods with DIFFERENT outputs: the scores live in decision_function, predict_proba returns the reversed
    ranking and predict hard labels - the configured predict_method must be used consistently at fit and at predict time"""

    def decision_function(self, X):
        return self._scores(X)

    def predict_proba(self, X):
        s = self._scores(X)
        return np.stack([s, 1 - s], axis=1)

    def predict(self, X):
        return np.zeros(len(np.asarray(X)))


def configs(tier, rnd):
    cfgs = []
    for cons in list(SIMPLE) + ["equalized_odds"]:
        for obj in (OBJ_EO if cons == "equalized_odds" else OBJ_SIMPLE):
            for flip in (False, True):
                cfgs.append((cons, obj, flip))
    return cfgs


def structures(tier):
    """(labels, groups): every group has both labels; canonical up to row order and group renaming."""
    out = []

    def build(sizes_pos):  # list of (size, positives)
        y, g = [], []
        for gi, (sz, pos) in enumerate(sizes_pos):
            y += [1] * pos + [0] * (sz - pos)
            g += [gi] * sz
        return y, g

    if tier == "quick":
        specs = [[(2, 1), (2, 1)], [(2, 1), (3, 1)], [(2, 1), (3, 2)]]
    else:
        specs = [[(2, 1), (2, 1)], [(2, 1), (3, 1)], [(2, 1), (3, 2)], [(3, 1), (3, 2)], [(3, 1), (3, 1)], [(2, 1), (4, 2)], [(2, 1), (4, 1)],
                 [(2, 1), (2, 1), (2, 1)], [(2, 1), (2, 1), (3, 2)], [(3, 2), (4, 1)]]
    for s in specs:
        out.append(build(s))
    return out


def _make_to(estimator, cons, obj, grid_size, flip, via_set_params):
    """either constructed with its final parameters, or constructed with defaults and configured through set_params afterwards
    (what clone / GridSearchCV / Pipeline do): fit must depend on the parameters as they are at fit time"""
    from fairlearn.postprocessing import ThresholdOptimizer

    pm = "predict_proba"
    if flip:  # half of the configurations: an estimator with several methods, scores taken from decision_function
        estimator = MultiScorer(estimator.scores)
        pm = "decision_function"
    if not via_set_params:
        return ThresholdOptimizer(estimator=estimator, constraints=cons, objective=obj, grid_size=grid_size, flip=flip, prefit=True, predict_method=pm)
    to = ThresholdOptimizer(estimator=estimator, prefit=True)
    # parameters that come out of a numpy array / ParameterGrid are numpy scalars: flip=np.True_ is truthy but is not the object True
    to.set_params(constraints=cons, objective=obj, grid_size=grid_size, flip=np.bool_(flip), predict_method=pm)
    return to


def fit_symbolic(cfg, y, groups, grid_size):
    """one symbolic run of the real fit + _pmf_predict on the training rows"""
    from fairlearn.postprocessing import ThresholdOptimizer

    cons, obj, flip = cfg
    n = len(y)
    s = [real(f"s{i}", 0, 1) for i in range(n)]
    X = np.arange(n).reshape(-1, 1)
    sf = [GROUPS[g] for g in groups]
    to = _make_to(Scorer(s), cons, obj, grid_size, flip, via_set_params=(grid_size % 2 == 0))
    to.fit(X, list(y), sensitive_features=sf)
    pm = to._pmf_predict(X, sensitive_features=sf)
    return to, s, np.asarray(pm, dtype=object)


def fit_concrete(cfg, y, groups, grid_size, scores):
    from fairlearn.postprocessing import ThresholdOptimizer

    cons, obj, flip = cfg
    n = len(y)
    X = np.arange(n).reshape(-1, 1)
    sf = [GROUPS[g] for g in groups]
    to = _make_to(Scorer([float(v) for v in scores]), cons, obj, grid_size, flip, via_set_params=(grid_size % 2 == 0))
    to.fit(X, list(y), sensitive_features=sf)
    pm = to._pmf_predict(X, sensitive_features=sf)
    return to, np.asarray(pm, dtype=float)


# ---- first-principles metric table ------------------------------------------------------------------
def metric_value(name, tp, fp, tn, fn):
    """metric of (expected) confusion counts; exact on Fractions"""
    pos, neg, n = tp + fn, tn + fp, tp + fp + tn + fn
    return {"selection_rate": lambda: (tp + fp) / n, "false_positive_rate": lambda: fp / neg, "false_negative_rate": lambda: fn / pos,
            "true_positive_rate": lambda: tp / pos, "true_negative_rate": lambda: tn / neg, "accuracy_score": lambda: (tp + tn) / n,
            "balanced_accuracy_score": lambda: (tp / pos + tn / neg) / 2}[name]()


def group_counts(p1, y, rows):
    """expected confusion counts of a randomised rule with positive probabilities p1 on the given rows"""
    tp = sum(p1[i] for i in rows if y[i] == 1)
    fn = sum(1 - p1[i] for i in rows if y[i] == 1)
    fp = sum(p1[i] for i in rows if y[i] == 0)
    tn = sum(1 - p1[i] for i in rows if y[i] == 0)
    return tp, fp, tn, fn


def threshold_rules(scores, y, rows, flip):
    """all deterministic threshold rules of one group as 0/1 vectors over its rows (independent re-computation)"""
    levels = sorted(set(scores[i] for i in rows), reverse=True)
    rules = []
    cuts = [None] + levels  # None: predict nobody; level L: predict s >= L  (i.e. threshold just below L)
    for c in cuts:
        sel = {i: (0 if c is None else (1 if scores[i] >= c else 0)) for i in rows}
        rules.append(sel)
        if flip:
            rules.append({i: 1 - v for i, v in sel.items()})
    return rules


def model_scores(ctx, n):
    """exact rational scores satisfying the path condition"""
    s = z3.Solver()
    s.add(*ctx.pc)
    if s.check() != z3.sat:
        return None
    m = s.model()
    out = []
    for i in range(n):
        v = m.eval(z3.Real(f"s{i}"), model_completion=True)
        out.append(Fr(v.numerator_as_long(), v.denominator_as_long()))
    return out


def to_frac(x):
    return Fr(float(x)).limit_denominator(10 ** 9)
