"""C08 - ExponentiatedGradient meets the saddle-point guarantees certified by best_gap_.

The EG loop itself (np.exp, HiGHS, data-dependent trip count) is not encodable.  The guarantee, however, is exactly
(a) soundness of the certificate that eval_gap attaches to WHATEVER (Q, lambda-hat) it is given - H-cert - plus
(b) correct bookkeeping of which (Q, gap) pair fit() returns - H-book.  Both are decided symbolically from arbitrary states."""
import itertools
import random

import numpy as np
import pandas as pd
import z3

from harness import moments_common as mc
from harness.c09 import ConstLearner, ExactLearner
from symx import core, oracle as O
from symx.core import SReal, real, term
from symx.runner import F, JobAcc

PROPERTY = "C08"
BUDGET = {"quick": 170, "thorough": 1700}
META = {
    "explanation": "H-cert: the real _Lagrangian.__init__/best_h/_call_oracle/_eval/eval_gap/_GapResult.gap with the real moments underneath and an exact "
                   "cost-sensitive learner over all labelings of the <=3 distinct feature values (the property's premise), on enumerated tiny datasets; the "
                   "state (stored predictors) is built by real best_h calls. Linear slices of the bilinear certificate: (Q symbolic in the simplex over the "
                   "stored predictors, lambda-hat from a seeded rational pool incl. 0, scaled unit vectors, B-boundary points) and (lambda-hat symbolic >=0 "
                   "with ||lambda||_1<=B, Q from {vertices, uniform}). Obligations with g=result.gap(), slack 1e-8: g >= L(Q,l') - min_{h in H} L(h,l') "
                   "(H enumerated, L from the definition); g >= max_{l>=0,||l||_1<=B} L(Q,l) - L(Q,l'); hence for every Q' in Delta(H) meeting all constraints "
                   "err(Q) <= err(Q') + 2g, and gamma_j(Q)-bound_j <= (1+2g)/B. H-book: the real ExponentiatedGradient.fit with _Lagrangian replaced by a "
                   "nondeterministic stand-in (best_h returns a scripted stored index, eval_gap / solve_linprog return ARBITRARY symbolic gaps >=0): "
                   "weights_ is the Q that was paired with best_gap_, best_gap_ <= min over iterations of the recorded gaps + 1e-8, weights_ is a probability "
                   "vector over all stored predictors, and stopping before max_iter implies best_gap_ < nu.",
    "tier_bounds": {"quick": "H-cert: 3 parity moments x difference/ratio bound, 6 seeded datasets (n=4, 2 groups, <=3 feature values), B in {2,10}, 6 pool multipliers "
                             "for the Q-slice, 2 pool Qs for the lambda-slice (path cap 150); H-book: max_iter in {2,6}, 2 scripted index sequences, linprog on/off, path cap 400",
                    "thorough": "5 moments, 20 datasets (n<=5, 3 groups), B in {2,10,100}, path cap 1500; H-book max_iter up to 9, 12 scripts"},
    "trusted_base": ["z3 (LRA)", "symx", "exact-learner stub", "the harness's own Lagrangian (error + lambda.(gamma-bound)) from the definitions of C06"],
    "stubs": ["exact cost-sensitive learner", "DummyClassifier -> constant learner", "H-book: _Lagrangian stand-in with arbitrary gaps"],
    "assumptions": ["exact learner over a finite class (premise)", "lambda-hat >= 0, ||lambda-hat||_1 <= B", "linear slices, not the joint for-all over (Q, lambda-hat)"],
    "outside": ["convergence / termination of the EG loop, np.exp, HiGHS quality", "hypothesis classes other than all labelings", "datasets beyond the enumerated tiny ones"],
}
MANIFEST = {
    "level_text": "Bounded symbolic verification of certificate soundness from arbitrary states (one inductive step) on linear slices, plus symbolic bookkeeping "
                  "of fit() against arbitrary gap sequences: the guarantee does not depend on the loop converging, only on these two facts.",
    "level_note": "Trusted: z3, symx, exact-learner stub. The joint for-all over (Q, lambda-hat) is bilinear and was not decidable in reach (DESIGN 6 C08): two families of linear slices are proved instead. The EG iteration itself is outside the claim.",
    "design_ref": "DESIGN.md section 6 C08",
}
SLACK = z3.RealVal("2/100000000")  # the code uses the float 1e-8 (_PRECISION), not the rational 10^-8: twice that as slack


def setup():
    import fairlearn.reductions._exponentiated_gradient._lagrangian as lg

    lg.DummyClassifier = ConstLearner


def jobs(tier, seed):
    rnd = random.Random(seed)
    js = []
    moms = ["DemographicParity", "EqualizedOdds", "ErrorRateParity"] if tier == "quick" else mc.PARITY
    nds = 6 if tier == "quick" else 20
    for mom in moms:
        for bk in ("difference", "ratio"):
            for d in range(nds):
                n = 4 if tier == "quick" else rnd.choice([4, 5])
                y = [rnd.randint(0, 1) for _ in range(n)]
                g = list(rnd.choice([x for x in core.rgs(n, 2 if tier == "quick" else 3) if len(set(x)) >= 2]))
                f = [rnd.randint(0, 2) for _ in range(n)]
                B = rnd.choice([2, 10] if tier == "quick" else [2, 10, 100])
                for sl in ("Q", "lam"):
                    js.append({"id": f"cert-{mom}-{bk}-{d}-{sl}", "kind": "cert", "moment": mom, "bound": bk, "y": y, "groups": g, "feat": f, "B": B, "slice": sl,
                               "seed": rnd.randint(0, 10 ** 6), "cap": 150 if tier == "quick" else 1500})
    book = []
    for mi in ((2, 6) if tier == "quick" else (2, 6, 7, 9)):
        for si in range(2 if tier == "quick" else 12):
            for lp in (False, True):
                book.append({"id": f"book-m{mi}-s{si}-{'lp' if lp else 'nolp'}", "kind": "book", "max_iter": mi, "script": [rnd.randint(0, 2) for _ in range(12)], "linprog": lp,
                             "cap": 400 if tier == "quick" else 6000})
    # interleave so that a deadline cuts both families evenly
    out = []
    while js or book:
        if book:
            out.append(book.pop(0))
        out.extend(js[:4])
        js = js[4:]
    return out


# ---- H-cert ------------------------------------------------------------------------------------------
def _proj(lam_items):
    """project (+,-) pairs onto their difference (ratio == 1): dict entry -> z3 term"""
    out = {}
    for (sign, e, g), v in lam_items.items():
        other = lam_items[("-" if sign == "+" else "+", e, g)]
        d = v - other
        out[(sign, e, g)] = z3.If(d > 0, d, z3.RealVal(0))
    return out


def _cert(acc, job, deadline):
    from fairlearn.reductions._exponentiated_gradient._lagrangian import _Lagrangian

    name, bk, y, groups, feat, B = job["moment"], job["bound"], job["y"], job["groups"], job["feat"], job["B"]
    n = len(y)
    rnd = random.Random(job["seed"])
    X = pd.DataFrame({"f": feat})
    sf = [mc.GROUP_NAMES[g] for g in groups]
    ratio = 0.8 if bk == "ratio" else 1
    eps = 0.05 if job["seed"] % 3 else 0.0  # the boundary value 0 (exact parity) is a legitimate request
    vals = sorted(set(feat))
    H = [dict(zip(vals, lab)) for lab in itertools.product([0, 1], repeat=len(vals))]
    probe = mc.make_moment(name, bk, ratio if bk == "ratio" else eps, eps)
    mc.load(probe, y, groups, None, X=X)
    if len(probe.index) == 0:
        acc.r["canaries"] += 1
        acc.r["canaries_fired"] += 1
        return
    mapping, problems = mc.index_map(probe, name, y, groups, None)
    K = len(probe.index)

    def herr(h):
        return z3.RealVal(sum(1 for i in range(n) if h[feat[i]] != y[i])) / n

    def hgam(h):
        return mc.oracle_gamma(name, y, groups, None, [h[feat[i]] for i in range(n)], ratio)

    pool = [[0] * K]
    for j in range(K):
        v = [0] * K
        v[j] = B
        pool.append(v)
    for _ in range(3):
        raw = [rnd.randint(0, 4) for _ in range(K)]
        s = sum(raw) or 1
        pool.append([x * B * rnd.choice([0.25, 0.5, 1.0]) / s for x in raw])

    def build():
        cons = mc.make_moment(name, bk, ratio if bk == "ratio" else eps, eps)
        # every other job: a learner that is NOT an sklearn estimator (no get_params) and keeps its fitted model in a mutable container created by
        # __init__ - the documented fallback for such estimators is a deep copy per oracle call, so stored predictors never share that container
        lag = _Lagrangian(X=X, y=list(y), estimator=PlainExactLearner() if sum(job["id"].encode()) % 2 else ExactLearner(), constraints=cons, B=B,
                          sensitive_features=sf)
        for v in pool[:4]:
            lag.best_h(pd.Series(v, index=cons.index, dtype=float))
        return lag, cons

    def run():
        lag, cons = build()
        T = len(lag.hs)
        if job["slice"] == "Q":
            q = [real(f"q{t}", 0, 1) for t in range(T)]
            core.cur().assume(core.zsum([term(x) for x in q]) == 1)
            Q = pd.Series(q, index=lag.hs.index, dtype=object)
            lam_vals = pool[rnd.randrange(len(pool))] if False else pool[job["seed"] % len(pool)]
            lam = pd.Series([float(v) for v in lam_vals], index=cons.index)
        else:
            lam_s = [real(f"l{j}", 0) for j in range(K)]
            core.cur().assume(core.zsum([term(x) for x in lam_s]) <= B)
            lam = pd.Series(lam_s, index=cons.index, dtype=object)
            qv = [0.0] * T
            if job["seed"] % 2 == 0:
                qv = [1.0 / T] * T
            else:
                qv[job["seed"] % T] = 1.0
            Q = pd.Series(qv, index=lag.hs.index)
        nu = 0.001
        res = lag.eval_gap(Q, lam, nu)
        stored = [lag.hs[t] for t in list(Q.index)]
        maps = [lag.predictors[t].map_ for t in list(Q.index)]
        return Q, lam, res, maps, list(cons.index)

    def on_ok(ctx, out):
        Q, lam, res, maps, idx = out
        acc.reach(ctx)
        g = term(res.gap())
        lam_items = {mapping[e]: term(lam[e]) for e in idx}
        lamp = _proj(lam_items) if bk == "difference" else lam_items
        bound = z3.RealVal(str(eps))

        def L(err, gam, lv):
            return err + core.zsum([lv[k] * (gam[k] - bound) for k in lv])

        errQ = core.zsum([term(Q.iloc[t]) * herr(maps[t]) for t in range(len(maps))])
        gams = [hgam(m) for m in maps]
        gamQ = {k: core.zsum([term(Q.iloc[t]) * gams[t][k] for t in range(len(maps))]) for k in lam_items}
        LQ = L(errQ, gamQ, lamp)
        sig = f"cert:{name}:{bk}:{job['slice']}"
        items = []
        items.append(("gap_covers_best_response_side", z3.And([g >= LQ - L(herr(h), hgam(h), lamp) - SLACK for h in H]), sig + ":low"))
        viol = [gamQ[k] - bound for k in gamQ]
        mx = viol[0]
        for v in viol[1:]:
            mx = z3.If(v > mx, v, mx)
        Lhigh = errQ + z3.If(mx > 0, B * mx, z3.RealVal(0))
        items.append(("gap_covers_multiplier_side", g >= Lhigh - LQ - SLACK, sig + ":high"))
        # consequences (Theorem 1 of the reductions paper), stated directly
        items.append(("constraint_violation_bounded_by_gap", z3.And([v <= (1 + 2 * g) / B + SLACK for v in viol]), sig + ":violation"))
        acc.check_all(ctx, items)
        # error bound against every feasible mixture Q' over the full class: negated claim is an LRA query with Q' existential
        qp = [z3.Real(f"qp{k}") for k in range(len(H))]
        s = z3.Solver()
        s.add(*ctx.pc)
        s.add(*[v >= 0 for v in qp], z3.Sum(qp) == 1)
        gH = [hgam(h) for h in H]
        for k in lam_items:
            s.add(z3.Sum([qp[i] * gH[i][k] for i in range(len(H))]) <= bound)
        s.add(errQ > z3.Sum([qp[i] * herr(H[i]) for i in range(len(H))]) + 2 * g + SLACK)
        r = s.check()
        acc.r["queries"] += 1
        acc.check(ctx, "error_within_2g_of_best_feasible_mixture", z3.BoolVal(r == z3.unsat), signature=sig + ":error", extra={"result": str(r)})
        acc.canary(ctx, "canary_cert", g <= -1)

    acc.explore(run, on_ok, deadline=deadline, max_paths=job["cap"])


class PlainExactLearner:
    """the exact learner as a plain Python object: no get_params / set_params, fitted state inside a mutable dict made by the constructor"""

    def __init__(self):
        self.state = {}

    def fit(self, X, y, sample_weight=None):
        self.state["map"] = ExactLearner().fit(X, y, sample_weight=sample_weight).map_
        return self

    @property
    def map_(self):
        return self.state["map"]

    def predict(self, X):
        return np.array([self.state["map"][int(v)] for v in np.asarray(X)[:, 0]])


# ---- H-book ------------------------------------------------------------------------------------------
class _Gap:
    def __init__(self, g, idx):
        self._g = g
        self.L_low, self.L, self.L_high, self.error = 0.0, 0.0, 0.0, 0.0
        self.gamma = pd.Series(0.0, index=idx)

    def gap(self):
        return self._g


STATE = {}


class FakeLagrangian:
    def __init__(self, *, X, y, estimator, constraints, B, objective=None, opt_lambda=True, sample_weight_name="sample_weight", **kwargs):
        self.constraints = constraints
        self.constraints.load_data(X, y, **kwargs)
        self.hs = pd.Series(dtype="object")
        self.predictors = pd.Series(dtype="object")
        self.gammas = pd.DataFrame()
        self.lambdas = pd.DataFrame()
        self.n_oracle_calls = 0
        self.n_oracle_calls_dummy_returned = 0
        self.oracle_execution_times = []
        self.t = 0
        STATE["log"] = []

    def best_h(self, lambda_vec):
        want = STATE["script"][self.t % len(STATE["script"])]
        idx = (len(self.hs) - 1 - want) if (len(self.hs) > want and self.t % 2) else min(want, len(self.hs))  # a stored index (old or recent) or a new one
        if idx == len(self.hs):
            self._new_predictor(lambda_vec)
        STATE["log"].append(("best_h", self.t, idx))
        return self.hs[idx], idx

    def _new_predictor(self, lambda_vec):
        idx = len(self.hs)
        self.hs.at[idx] = (lambda X, i=idx: np.full(len(X), float(i % 2)))
        self.predictors.at[idx] = f"pred{idx}"
        self.gammas[idx] = pd.Series([0.01 * ((idx + j) % 3 - 1) for j in range(len(self.constraints.index))], index=self.constraints.index)
        self.lambdas[idx] = lambda_vec.copy()
        return idx

    def eval_gap(self, Q, lambda_hat, nu):
        # like the real eval_gap (which calls best_h), the gap evaluation may discover a predictor that the iterate has not picked yet
        if STATE["script"][(self.t + 3) % len(STATE["script"])] == 1:
            self._new_predictor(lambda_hat)
        g = real(f"gEG{self.t}", 0)
        STATE["log"].append(("eval_gap", self.t, Q.copy(), g))
        self.t += 1
        return _Gap(g, self.constraints.index)

    def solve_linprog(self, nu):
        t = self.t - 1
        g = real(f"gLP{t}", 0)
        k = len(self.hs)
        Q = pd.Series([1.0 / k] * k, index=self.hs.index) + 0.0
        Q.iloc[0] += 0.0
        Q = Q * 0 + pd.Series([(1.0 + (t % 2)) / (k + (t % 2))] + [1.0 / (k + (t % 2))] * (k - 1), index=self.hs.index)  # a recognisable, valid distribution
        STATE["log"].append(("linprog", t, Q.copy(), g))
        return Q, pd.Series(0.0, index=self.constraints.index), _Gap(g, self.constraints.index)


def _book(acc, job, deadline):
    import fairlearn.reductions as red
    import fairlearn.reductions._exponentiated_gradient.exponentiated_gradient as egm

    X = pd.DataFrame({"f": [0, 1, 2, 0]})
    y, g = [1, 0, 1, 0], [0, 0, 1, 1]
    orig = egm._Lagrangian
    mi = job["max_iter"]

    def run():
        STATE["script"] = job["script"]
        egm._Lagrangian = FakeLagrangian
        try:
            nu = real("nu", 0, None, lo_strict=True)
            eg = red.ExponentiatedGradient(ExactLearner(), constraints=red.DemographicParity(difference_bound=0.05), max_iter=mi, nu=nu, eps=0.1,
                                           run_linprog_step=job["linprog"])
            eg.fit(X, y, sensitive_features=[mc.GROUP_NAMES[v] for v in g])
            return eg, nu, list(STATE["log"])
        finally:
            egm._Lagrangian = orig

    def on_ok(ctx, out):
        eg, nu, log = out
        acc.reach(ctx)
        evals = [e for e in log if e[0] == "eval_gap"]
        lps = {e[1]: e for e in log if e[0] == "linprog"}
        T = len(evals)
        cand = []  # per iteration the (Q, gap) pair fit() is allowed to keep
        for t in range(T):
            qeg, geg = evals[t][2], term(evals[t][3])
            if t in lps:
                qlp, glp = lps[t][2], term(lps[t][3])
                cand.append((z3.If(geg < glp, geg, glp), (qeg, geg), (qlp, glp)))
            else:
                cand.append((geg, (qeg, geg), None))
        bg = term(eg.best_gap_)
        w = eg.weights_
        items = [("best_gap_is_min_over_iterations", z3.And([bg <= c[0] + SLACK for c in cand]), "book:min_gap"),
                 ("last_iter_counts_iterations", z3.BoolVal(int(eg.last_iter_) == T - 1), "book:last_iter")]
        bi = int(eg.best_iter_)
        ok_iter = 0 <= bi < T
        items.append(("best_iter_in_range", z3.BoolVal(ok_iter), "book:best_iter"))
        if ok_iter:
            c = cand[bi]

            def same_q(q):
                q = q.reindex(w.index).fillna(0.0) if set(q.index) <= set(w.index) else None
                if q is None:
                    return z3.BoolVal(False)
                return z3.And([O.same(w[k], q[k]) for k in w.index])
            pair_eg = z3.And(bg == c[1][1], same_q(c[1][0]))
            pair_lp = z3.And(bg == c[2][1], same_q(c[2][0])) if c[2] is not None else z3.BoolVal(False)
            items.append(("weights_are_the_Q_paired_with_best_gap", z3.Or(pair_eg, pair_lp), "book:pairing"))
            items.append(("best_gap_is_the_kept_gap_of_best_iter", bg == c[0], "book:best_gap_value"))
        items.append(("weights_form_a_distribution_over_all_stored_predictors",
                      z3.And([term(v) >= 0 for v in w] + [core.zsum([term(v) for v in w]) == 1, z3.BoolVal(set(w.index) == set(eg._hs.index))]), "book:weights"))
        items.append(("early_stop_implies_gap_below_nu", z3.Implies(z3.BoolVal(int(eg.last_iter_) < mi - 1), bg < term(nu)), "book:early_stop"))
        acc.check_all(ctx, items)
        acc.canary(ctx, "canary_book", bg < 0)
        acc.sample({"job": job["id"], "iterations": T, "best_iter": bi, "weights_index": list(map(int, w.index))})

    acc.explore(run, on_ok, deadline=deadline, max_paths=job.get("cap", 700))


def run_job(job, deadline):
    mc.set_group_order(job["id"])
    acc = JobAcc(job)
    if job["kind"] == "cert":
        _cert(acc, job, deadline)
    else:
        _book(acc, job, deadline)
    return acc.result()


# ---- replay ------------------------------------------------------------------------------------------
def replay(cex):
    """Counter-examples live in a scripted environment (arbitrary Q / lambda-hat, arbitrary gap sequence): the same harness body is re-run with the concrete
    model values against the real eval_gap / fit code."""
    import time

    job, mdl = cex["job"], cex["model"]
    mc.set_group_order(job["id"])
    setup()
    core.patch_environment()
    acc = JobAcc(job)
    fixed = [(z3.Real(k) == z3.RealVal(v)) for k, v in mdl.items() if v not in ("true", "false")]

    saved = core.Ctx.__init__

    def init(self, script=(), assumptions=()):
        saved(self, script, list(assumptions) + fixed)

    core.Ctx.__init__ = init
    try:
        if job["kind"] == "cert":
            _cert(acc, job, time.time() + 200)
        else:
            _book(acc, job, time.time() + 200)
    finally:
        core.Ctx.__init__ = saved
    hits = [c for c in acc.r["cex"] if c["signature"] == cex["signature"]] or acc.r["cex"]
    return {"reproduced": bool(hits), "signature": hits[0]["signature"] if hits else "", "detail": f"with the model values fixed ({ {k: mdl[k] for k in list(mdl)[:8]} }) the real code still violates {[h['obligation'] for h in hits[:3]]}"}
