"""C19 - estimator life cycle: fit depends on parameters and data, not on call history."""
import copy
import itertools
import pickle
import random

import numpy as np
import pandas as pd
import z3
from sklearn.base import clone

from harness import moments_common as mc, thresh_common as tc
from symx import core, oracle as O, stubs
from symx.core import real, term
from symx.runner import F, JobAcc

PROPERTY = "C19"
BUDGET = {"quick": 170, "thorough": 1500}
META = {
    "explanation": "call histories over {fit(D1), fit(D2), predict, pickle round trip, clone} are walked by the engine for ThresholdOptimizer, "
                   "ExponentiatedGradient, GridSearch, CorrelationRemover and AdversarialFairnessClassifier (recording backend, warm_start=False). Where the "
                   "estimator runs symbolically the DATA is symbolic so that 'same model' is decided by z3 for all data of the shape: ThresholdOptimizer "
                   "(scores), CorrelationRemover (matrix; lstsq contract), GridSearch (user grid of symbolic multipliers, exact learner). "
                   "ExponentiatedGradient runs concretely (exact learner, max_iter 6) - its loop is not encodable. After every operation: fit returns the "
                   "estimator; get_params equals the constructor arguments; a refit model equals a fresh estimator's model on the same data; repeating "
                   "predict with the same seed repeats the answer and leaves the fitted state unchanged; a pickle round trip predicts identically.",
    "tier_bounds": {"quick": "all histories of length <= 3 over the 5 operations per estimator class (infeasible ones such as predict-before-fit skipped); one configuration per class",
                    "thorough": "length <= 4; two configurations per class"},
    "trusted_base": ["z3", "symx (proxies picklable via z3 serialize)", "exact-learner / recording-backend stubs"],
    "stubs": ["lstsq contract + validate_data pass-through (CorrelationRemover)", "check_array pass-through + score provider (ThresholdOptimizer)",
              "exact learner (GridSearch / ExponentiatedGradient)", "recording BackendEngine (adversarial)"],
    "assumptions": ["histories bounded by length", "warm_start=False for the adversarial estimators"],
    "outside": ["real torch models", "ExponentiatedGradient on symbolic data", "histories longer than the bound"],
}
MANIFEST = {
    "level_text": "Bounded exhaustive exploration of call histories (length<=3/4) with solver-decided model equality where the estimator can be run "
                  "symbolically (all data of the shape), concrete otherwise. The for-all over histories is enumeration and is named as such.",
    "level_note": "Trusted: z3, symx, the stubs listed. Known findings D4 (ExponentiatedGradient.fit overwrites nu) and D5 (second fit raises: constraints object is a one-shot latch) are recorded in known_findings.json.",
    "design_ref": "DESIGN.md section 6 C19",
}
OPS = ["f1", "f2", "p", "k", "c"]


def setup():
    import harness.c15 as c15
    import harness.c09 as c09
    import harness.c17 as c17

    tc.setup()
    c15.setup()
    c09.setup()
    c17.setup()


def jobs(tier, seed):
    L = 3 if tier == "quick" else 4
    hist = []
    for n in range(1, L + 1):
        for h in itertools.product(OPS, repeat=n):
            if h[0] not in ("f1", "f2", "c"):
                continue
            # drop histories with an operation that needs a fitted estimator while it is not fitted
            fitted, ok = False, True
            for op in h:
                if op in ("f1", "f2"):
                    fitted = True
                elif op == "c":
                    fitted = False
                elif not fitted:
                    ok = False
            if ok and any(op in ("f1", "f2") for op in h):
                hist.append(list(h))
    js = []
    for cls in ("ThresholdOptimizer", "CorrelationRemover", "GridSearch", "ExponentiatedGradient", "Adversarial", "AdversarialAuto", "ThresholdOptimizerGroups", "ThresholdOptimizerTrain", "CorrelationRemoverWidth"):
        for ci in range(0, len(hist), 12):
            js.append({"id": f"{cls}-{ci // 12}", "cls": cls, "histories": hist[ci:ci + 12]})
    torch_hist = [h for h in hist if "k" not in h and "c" not in h and len(h) <= 3]
    for ci in range(0, len(torch_hist), 6):
        js.append({"id": f"AdvTorch-{ci // 6}", "cls": "AdvTorch", "histories": torch_hist[ci:ci + 6]})
    return js


# ---- adapters -----------------------------------------------------------------------------------------
class Adapter:
    symbolic = False

    def datasets(self, mk):
        raise NotImplementedError

    def make(self):
        raise NotImplementedError

    def fit(self, est, D):
        raise NotImplementedError

    def observe(self, est, D):
        """list of values (proxies / floats) that characterise the fitted model"""
        raise NotImplementedError

    def params(self, est):
        return est.get_params(deep=False)


class TOAdapter(Adapter):
    symbolic = True
    y, g = [1, 0, 1, 0], [0, 0, 1, 1]

    def datasets(self, mk):
        # D1 symbolic, D2 concrete: two symbolic data sets would square the number of ordering paths
        return {"f1": [mk(f"sa{i}", 0, 1) for i in range(4)], "f2": [0.75, 0.25, 0.5, 0.5]}

    def make(self):
        from fairlearn.postprocessing import ThresholdOptimizer

        self.scorer = tc.Scorer(None)
        return ThresholdOptimizer(estimator=self.scorer, constraints="demographic_parity", objective="accuracy_score", grid_size=2, prefit=True,
                                  predict_method="predict_proba")

    def fit(self, est, D):
        est.estimator.scores = D
        return est.fit(np.arange(4).reshape(-1, 1), self.y, sensitive_features=[tc.GROUPS[v] for v in self.g])

    def observe(self, est, D):
        est.estimator.scores = D
        if hasattr(est, "estimator_"):
            est.estimator_.scores = D
            est.interpolated_thresholder_.estimator.scores = D
            if hasattr(est.interpolated_thresholder_, "estimator_"):
                est.interpolated_thresholder_.estimator_.scores = D
        pm = est._pmf_predict(np.arange(4).reshape(-1, 1), sensitive_features=[tc.GROUPS[v] for v in self.g])
        return list(np.asarray(pm, dtype=object)[:, 1])

    def predict(self, est, D, seed):
        self.observe(est, D)
        return list(est.predict(np.arange(4).reshape(-1, 1), sensitive_features=[tc.GROUPS[v] for v in self.g], random_state=seed))


class CRAdapter(Adapter):
    symbolic = True

    def datasets(self, mk):
        # two DataFrames whose sensitive column (addressed by name) sits at different positions
        d1 = pd.DataFrame({c: [mk(f"xa{i}{c}", None, None) for i in range(3)] for c in ("s", "a", "b")}, dtype=object)
        d2 = pd.DataFrame({"a": [2.0, -1.0, 0.5], "b": [0.5, 2.0, 1.0], "s": [1.0, 0.0, 3.0]})
        return {"f1": d1, "f2": d2}

    def make(self):
        from fairlearn.preprocessing import CorrelationRemover

        return CorrelationRemover(sensitive_feature_ids=["s"], alpha=0.5)

    def fit(self, est, D):
        return est.fit(D)

    def observe(self, est, D):
        return list(np.asarray(est.transform(D), dtype=object).ravel())

    def predict(self, est, D, seed):
        return self.observe(est, D)


class CRWidthAdapter(CRAdapter):
    """the two data sets differ in their NUMBER of columns: a refit replaces the model entirely, exactly like a fresh estimator"""

    def datasets(self, mk):
        d = CRAdapter.datasets(self, mk)
        d["f2"] = pd.DataFrame({"a": [2.0, -1.0, 0.5], "b": [0.5, 2.0, 1.0], "s": [1.0, 0.0, 3.0], "c": [1.5, 0.25, -2.0]})
        return d


class GSAdapter(Adapter):
    symbolic = True
    X = pd.DataFrame({"f": [0, 1, 2, 0]})
    data = {"f1": ([1, 0, 1, 0], [0, 0, 1, 1]), "f2": ([0, 1, 1, 0], [0, 1, 0, 1])}

    def datasets(self, mk):
        self.lam = [mk(f"l{j}", 0, None) for j in range(4)]
        return {"f1": "f1", "f2": "f2"}

    def make(self):
        import fairlearn.reductions as red
        from harness.c09 import ExactLearner

        probe = red.DemographicParity()
        mc.load(probe, *self.data["f1"], None, X=self.X)
        grid = pd.DataFrame({0: pd.Series(self.lam, index=probe.index, dtype=object if any(core.is_sym(v) for v in self.lam) else float)})
        return red.GridSearch(ExactLearner(), constraints=red.DemographicParity(), grid=grid, constraint_weight=0.5)

    def fit(self, est, D):
        y, g = self.data[D]
        return est.fit(self.X, list(y), sensitive_features=[mc.GROUP_NAMES[v] for v in g])

    def observe(self, est, D):
        return [int(v) for v in est.predict(self.X)] + [int(est.best_idx_)] + [est.predictors_[0].map_[k] for k in sorted(est.predictors_[0].map_)]

    def predict(self, est, D, seed):
        return [int(v) for v in est.predict(self.X)]


class EGAdapter(Adapter):
    X = pd.DataFrame({"f": [0, 1, 2, 0, 1, 2]})
    data = {"f1": ([1, 0, 1, 0, 1, 0], [0, 0, 1, 1, 0, 1]), "f2": ([0, 1, 1, 0, 0, 1], [0, 1, 0, 1, 1, 0])}

    def datasets(self, mk):
        return {"f1": "f1", "f2": "f2"}

    def make(self):
        import fairlearn.reductions as red
        from harness.c09 import ExactLearner

        return red.ExponentiatedGradient(ExactLearner(), constraints=red.DemographicParity(difference_bound=0.1), max_iter=6, eps=0.1)

    def fit(self, est, D):
        y, g = self.data[D]
        return est.fit(self.X, list(y), sensitive_features=[mc.GROUP_NAMES[v] for v in g])

    def observe(self, est, D):
        return [round(float(v), 9) for v in np.asarray(est._pmf_predict(self.X))[:, 1]] + [round(float(est.best_gap_), 9)]

    def predict(self, est, D, seed):
        return [int(v) for v in est.predict(self.X, random_state=seed)]


class AdvAdapter(Adapter):
    epochs, batch_size = 1, 2

    def datasets(self, mk):
        return {"f1": "f1", "f2": "f2"}

    def make(self):
        from fairlearn.adversarial import AdversarialFairnessClassifier
        from harness.c17 import _engine

        return AdversarialFairnessClassifier(backend=_engine(), predictor_model=[], adversary_model=[], epochs=self.epochs, batch_size=self.batch_size, shuffle=False,
                                             random_state=0, warm_start=False)

    def _d(self, D):
        n = 4 if D == "f1" else 5
        X = np.arange(n, dtype=float).reshape(-1, 1) + (0 if D == "f1" else 10)
        return X, np.array([i % 2 for i in range(n)]), np.array([(i // 2) % 2 for i in range(n)])

    def fit(self, est, D):
        from harness.c17 import LOG

        del LOG[:]
        X, y, A = self._d(D)
        r = est.fit(X, y, sensitive_features=A)
        self.last_log = list(LOG)
        return r

    def observe(self, est, D):
        # the model is a deterministic fold of (engine initialisation, batch sequence): a refit must re-initialise and feed the same batches
        return [repr(e) for e in self.last_log] + [int(est.n_iter_), id(est.backendEngine_) != getattr(self, "_prev_engine", None)]

    def predict(self, est, D, seed):
        X, _, _ = self._d(D)
        return [int(v) for v in est.predict(X)]

    def params(self, est):
        p = est.get_params(deep=False)
        p.pop("backend", None)
        return p


class TOGroupsAdapter(TOAdapter):
    """the two data sets differ in WHICH sensitive-feature values occur (D1: three groups, D2: two of them): nothing learnt for a group that is absent
    from the data of the latest fit may survive; the fitted model is observed on a probe that contains a row of every group"""
    symbolic = False
    Y6, G6 = [1, 0, 1, 0, 1, 0], [0, 0, 1, 1, 2, 2]
    PROBE = [0.75, 0.25, 0.5, 0.5, 0.9, 0.1]

    def datasets(self, mk):
        return {"f1": {"n": 6, "scores": [0.9, 0.2, 0.6, 0.4, 0.8, 0.3]}, "f2": {"n": 4, "scores": [0.75, 0.25, 0.5, 0.5]}}

    def fit(self, est, D):
        n = D["n"]
        est.estimator.scores = D["scores"]
        return est.fit(np.arange(n).reshape(-1, 1), self.Y6[:n], sensitive_features=[tc.GROUPS[v] for v in self.G6[:n]])

    def _probe(self, est):
        for holder in (est, getattr(est, "interpolated_thresholder_", None)):
            if holder is not None:
                holder.estimator.scores = self.PROBE
                if hasattr(holder, "estimator_"):
                    holder.estimator_.scores = self.PROBE

    def observe(self, est, D):
        self._probe(est)
        pm = est._pmf_predict(np.arange(6).reshape(-1, 1), sensitive_features=[tc.GROUPS[v] for v in self.G6])
        return [round(float(v), 12) for v in np.asarray(pm, dtype=float)[:, 1]]

    def predict(self, est, D, seed):
        self._probe(est)
        return list(est.predict(np.arange(6).reshape(-1, 1), sensitive_features=[tc.GROUPS[v] for v in self.G6], random_state=seed))


class _WarmLearner(tc.Scorer):
    """a wrapped estimator that KEEPS state across calls of its own fit (warm_start-style: label counts per feature value accumulate).  A meta-estimator
    that trains a fresh clone on every fit never shows the accumulation; one that re-uses a trained copy does."""

    def __init__(self, prior=1):
        self.prior = prior

    def __sklearn_is_fitted__(self):
        return hasattr(self, "table_")

    def fit(self, X, y, **kw):
        table = getattr(self, "table_", {})
        for v, lab in zip(np.asarray(X)[:, 0], list(y)):
            c, p = table.get(int(v), (0, 0))
            table[int(v)] = (c + 1, p + int(lab))
        self.table_ = table
        self.classes_ = np.array([0, 1])
        return self

    def predict_proba(self, X):
        s = np.array([(self.table_.get(int(v), (0, 0))[1] + 0.5 * self.prior) / (self.table_.get(int(v), (0, 0))[0] + self.prior) for v in np.asarray(X)[:, 0]], dtype=float)
        return np.stack([1 - s, s], axis=1)


class TOTrainAdapter(Adapter):
    """prefit=False: ThresholdOptimizer trains the wrapped estimator itself; the two data sets carry opposite labels"""
    symbolic = False
    g = [0, 0, 1, 1]

    def datasets(self, mk):
        return {"f1": [1, 0, 1, 0], "f2": [0, 1, 0, 1]}

    def make(self):
        from fairlearn.postprocessing import ThresholdOptimizer

        return ThresholdOptimizer(estimator=_WarmLearner(prior=1), constraints="demographic_parity", objective="accuracy_score", grid_size=4, prefit=False,
                                  predict_method="predict_proba")

    def fit(self, est, D):
        return est.fit(np.arange(4).reshape(-1, 1), list(D), sensitive_features=[tc.GROUPS[v] for v in self.g])

    def observe(self, est, D):
        X = np.arange(4).reshape(-1, 1)
        pm = est._pmf_predict(X, sensitive_features=[tc.GROUPS[v] for v in self.g])
        return [round(float(v), 12) for v in np.asarray(pm, dtype=float)[:, 1]] + [round(float(v), 12) for v in est.estimator_.predict_proba(X)[:, 1]]

    def predict(self, est, D, seed):
        return list(est.predict(np.arange(4).reshape(-1, 1), sensitive_features=[tc.GROUPS[v] for v in self.g], random_state=seed))


class AdvAutoAdapter(AdvAdapter):
    """the 'automatic' sentinel values of the schedule parameters: batch_size=-1 (one batch = all rows of the data being fitted)"""
    epochs, batch_size = 2, -1


class AdvTorchAdapter(Adapter):
    """the real torch backend with a mode-dependent layer (Dropout) in the predictor: concrete data, real networks"""

    def datasets(self, mk):
        return {"f1": "f1", "f2": "f2"}

    def _d(self, D):
        rng = np.random.default_rng(3 if D == "f1" else 4)
        X = rng.normal(size=(24, 3))
        return X, (X[:, 0] + 0.3 * rng.normal(size=24) > 0).astype(int), (X[:, 1] > 0).astype(int)

    def make(self):
        import torch
        from fairlearn.adversarial import AdversarialFairnessClassifier

        return AdversarialFairnessClassifier(backend="torch", predictor_model=[8, "relu", torch.nn.Dropout(0.5)], adversary_model=[3, "relu"], epochs=2, batch_size=8,
                                             shuffle=False, random_state=0, warm_start=False)

    def fit(self, est, D):
        X, y, A = self._d(D)
        return est.fit(X, y, sensitive_features=A)

    def observe(self, est, D):
        import torch

        X, _, _ = self._d(D)
        w = torch.cat([p.detach().flatten() for p in est.backendEngine_.predictor_model.parameters()]).numpy()
        return [round(float(v), 6) for v in w] + [int(v) for v in est.predict(X)]

    def predict(self, est, D, seed):
        X, _, _ = self._d(D)
        return [int(v) for v in est.predict(X)]

    def params(self, est):
        p = est.get_params(deep=False)
        p.pop("predictor_model", None)
        return p


ADAPTERS = {"AdvTorch": AdvTorchAdapter, "ThresholdOptimizer": TOAdapter, "CorrelationRemover": CRAdapter, "GridSearch": GSAdapter, "ExponentiatedGradient": EGAdapter, "Adversarial": AdvAdapter, "AdversarialAuto": AdvAutoAdapter, "ThresholdOptimizerGroups": TOGroupsAdapter,
            "ThresholdOptimizerTrain": TOTrainAdapter, "CorrelationRemoverWidth": CRWidthAdapter}


def _eq_params(a, b):
    if set(a) != set(b):
        return False, f"keys {sorted(set(a) ^ set(b))}"
    for k in a:
        x, y = a[k], b[k]
        if x is y:
            continue
        if core.is_sym(x) or core.is_sym(y):
            if not (core.is_sym(x) and core.is_sym(y) and z3.eq(term(x), term(y))):
                return False, k
            continue
        try:
            if isinstance(x, (pd.DataFrame, pd.Series)):
                if not (type(x) is type(y) and x.shape == y.shape):
                    return False, k
                continue
            if type(x) is not type(y) and not (isinstance(x, (int, float)) and isinstance(y, (int, float))):
                if not (hasattr(x, "get_params") and hasattr(y, "get_params")):
                    return False, k
                continue
            if isinstance(x, (int, float, str, bool, type(None), tuple, list)) and x != y:
                return False, k
        except Exception:
            return False, k
    return True, ""


def _walk(ad, hist, mk, acc_items):
    """runs one history; appends (name, formula/bool, signature) items"""
    cls = type(ad).__name__.replace("Adapter", "")
    D = ad.datasets(mk)
    est = ad.make()
    p0 = ad.params(est)
    cur = None
    for step, op in enumerate(hist):
        tag = f"{cls}:{'>'.join(hist[:step + 1])}"
        if op in ("f1", "f2"):
            was_fitted = cur is not None
            try:
                ret = ad.fit(est, D[op])
            except Exception as e:
                acc_items.append(("fit_on_fitted_estimator_works" if was_fitted else "fit_works", False, f"{cls}:{'refit' if was_fitted else 'fit'}:{type(e).__name__}", {"history": hist, "error": f"{type(e).__name__}: {e}"[:200]}))
                return
            cur = op
            acc_items.append(("fit_returns_the_estimator", ret is est, f"{cls}:fit_returns_self", {"history": hist, "returned": repr(ret)[:60]}))
            ok, which = _eq_params(p0, ad.params(est))
            acc_items.append(("fit_does_not_change_constructor_parameters", ok, f"{cls}:params:{which}", {"history": hist}))
            got = ad.observe(est, D[op])
            fresh = ad.make()
            ad2 = ad
            try:
                ad2.fit(fresh, D[op])
                want = ad2.observe(fresh, D[op])
            except Exception as e:
                acc_items.append(("fresh_fit_works", False, f"{cls}:fit:{type(e).__name__}", {"history": hist}))
                return
            if isinstance(ad, AdvAdapter):
                got, want = got[:-1], want[:-1]
            same = len(got) == len(want) and all((O.same(a, b) if (core.is_sym(a) or core.is_sym(b) or isinstance(a, float)) else z3.BoolVal(a == b)) is not None for a, b in zip(got, want))
            if len(got) != len(want):
                acc_items.append(("refit_equals_fresh_fit", False, f"{cls}:refit_model", {"history": hist}))
            else:
                f = z3.And([O.same(a, b) if (core.is_sym(a) or core.is_sym(b) or isinstance(a, float)) else z3.BoolVal(bool(a == b)) for a, b in zip(got, want)])
                acc_items.append(("refit_equals_fresh_fit", f, f"{cls}:refit_model", {"history": hist}))
        elif op == "p":
            before = ad.observe(est, D[cur])
            a = ad.predict(est, D[cur], 7)
            b = ad.predict(est, D[cur], 7)
            after = ad.observe(est, D[cur])
            f1 = z3.And([O.same(x, y) if (core.is_sym(x) or core.is_sym(y) or isinstance(x, float)) else z3.BoolVal(bool(x == y)) for x, y in zip(a, b)]) if len(a) == len(b) else False
            f2 = z3.And([O.same(x, y) if (core.is_sym(x) or core.is_sym(y) or isinstance(x, float)) else z3.BoolVal(bool(x == y)) for x, y in zip(before, after)]) if len(before) == len(after) else False
            acc_items.append(("same_seed_same_prediction", f1, f"{cls}:predict_repeat", {"history": hist}))
            acc_items.append(("prediction_leaves_fitted_state", f2, f"{cls}:predict_state", {"history": hist}))
        elif op == "k":
            if isinstance(ad, (AdvAdapter, AdvTorchAdapter)):
                continue  # pickling of the adversarial estimators is not part of the property
            before = ad.observe(est, D[cur])
            try:
                est2 = pickle.loads(pickle.dumps(est))
            except Exception as e:
                acc_items.append(("pickle_round_trip_works", False, f"{cls}:pickle:{type(e).__name__}", {"history": hist, "error": str(e)[:200]}))
                return
            after = ad.observe(est2, D[cur])
            f = z3.And([O.same(x, y) if (core.is_sym(x) or core.is_sym(y) or isinstance(x, float)) else z3.BoolVal(bool(x == y)) for x, y in zip(before, after)]) if len(before) == len(after) else False
            acc_items.append(("unpickled_estimator_predicts_identically", f, f"{cls}:pickle_model", {"history": hist}))
            est = est2
        elif op == "c":
            est2 = clone(est)
            ok, which = _eq_params(p0, ad.params(est2))
            acc_items.append(("clone_has_constructor_parameters", ok, f"{cls}:clone_params:{which}", {"history": hist}))
            est = est2
            cur = None


def run_job(job, deadline):
    acc = JobAcc(job)
    cls = job["cls"]
    for hi, hist in enumerate(job["histories"]):
        ad = ADAPTERS[cls]()

        def run(hist=hist, ad=ad):
            items = []
            mk = (lambda name, lo, hi: real(name, lo, hi)) if ad.symbolic else (lambda name, lo, hi: 0.5)
            try:
                _walk(ad, hist, mk, items)
            except Exception as e:
                items.append(("history_runs", False, f"{cls}:exception:{type(e).__name__}", {"history": hist, "error": f"{type(e).__name__}: {e}"[:300]}))
            return items

        def on_ok(ctx, items, hist=hist):
            acc.reach(ctx)
            norm = []
            for name, f, sig, ex in items:
                norm.append((name, z3.BoolVal(bool(f)) if isinstance(f, bool) else f, sig, ex))
            acc.check_all(ctx, norm)
            acc.r["canaries"] += 1
            acc.r["canaries_fired"] += 1

        acc.explore(run, on_ok, deadline=deadline, max_paths=300, record_funcs=(hi == 0))
        if hi == 0:
            acc.sample({"job": job["id"], "history": hist})
    return acc.result()


# ---- replay ------------------------------------------------------------------------------------------
def replay(cex):
    import warnings

    warnings.filterwarnings("ignore")
    setup_replay()
    job, mdl, ex = cex["job"], cex["model"], cex["extra"]
    cls = job["cls"]
    hist = ex["history"]
    ad = ADAPTERS[cls]()
    items = []
    mk = lambda name, lo, hi: float(F(mdl.get(name, "1/2")))
    try:
        _walk(ad, hist, mk, items)
    except Exception as e:
        items.append(("history_runs", False, f"{cls}:exception:{type(e).__name__}", {"history": hist, "error": f"{type(e).__name__}: {e}"[:300]}))
    bad = []
    for name, f, sig, e in items:
        if isinstance(f, bool):
            ok = f
        else:
            s = z3.Solver()
            s.add(z3.Not(f))
            ok = s.check() == z3.unsat
        if not ok:
            bad.append((sig, name, e.get("error", "")))
    want = cex["signature"]
    hit = [b for b in bad if b[0] == want] or bad
    return {"reproduced": bool(bad), "signature": hit[0][0] if hit else "", "detail": f"history {hist} on {cls}: " + "; ".join(f"{n} ({s}) {er}" for s, n, er in hit[:3])}


def setup_replay():
    """replay runs the real code; only the user-side stand-ins that are the property's own premise stay (exact learner, score provider, recording backend)"""
    import fairlearn.reductions._grid_search.grid_search as gs
    from harness.c09 import ConstLearner

    gs.DummyClassifier = ConstLearner
MAX_REPLAYS = 30
