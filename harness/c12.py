"""C12 - rows are matched by position, not by container type, index label or row order."""
import itertools
import random

import numpy as np
import pandas as pd
import z3

from harness import moments_common as mc, thresh_common as tc
from symx import core, oracle as O, stubs
from symx.core import SOpaque, SReal, real, term
from symx.runner import F, JobAcc

PROPERTY = "C12"
BUDGET = {"quick": 170, "thorough": 1500}
META = {
    "explanation": "bounded symbolic execution of MetricFrame (uninterpreted metric: any mis-pairing of rows changes a term), demographic_parity_difference / "
                   "equalized_odds_difference (symbolic weights), the moments' load_data/gamma/signed_weights (symbolic predictions and multipliers; also "
                   "through _Lagrangian.__init__ for ExponentiatedGradient), GridSearch.fit (symbolic grid, recorder learner) and ThresholdOptimizer.fit/"
                   "_pmf_predict (symbolic scores), each run in a BASELINE configuration (all lists, default index) and in variant configurations: container "
                   "kind per argument (list / ndarray / Series / one-column DataFrame / dict for features), index-label pattern of every pandas object "
                   "(reversed, offset, all-equal duplicates, shuffled, strings), a joint row permutation, a group-label bijection. z3 decides equality of the "
                   "variant's result terms with the baseline's for all row values; the configuration matrix itself is finite and walked by the engine.",
    "tier_bounds": {"quick": "n=4 rows; per entry point: every (argument x container x index pattern) one-at-a-time plus 12 seeded joint configurations, 3 row "
                             "permutations, 1 label bijection; entry point mf2: two features in ONE container (2-D array baseline; DataFrame x 6 index patterns; dict of arrays / lists; "
                             "dict of Series with one index pattern per column, 12 combinations)", "thorough": "n=5; 60 seeded joint configurations, all 24 permutations for n=4"},
    "trusted_base": ["z3", "symx", "pandas alignment semantics as executed"],
    "stubs": ["nanops._ensure_numeric", "confusion_matrix / unique stubs", "check_array pass-through", "recorder learner"],
    "assumptions": ["labels concrete (must pass validation)", "metric for MetricFrame: order-insensitive per-row sum"],
    "outside": ["ExponentiatedGradient's loop (covered through the moment layer and _Lagrangian.__init__ only)", "n>5"],
}
MANIFEST = {
    "level_text": "Bounded exploration of the container/index configuration matrix with solver-decided equality of results for ALL row values inside each "
                  "configuration (symbolic values make any label-based alignment or mis-pairing visible as a different term).",
    "level_note": "Trusted: z3, symx, pandas as executed. The configuration dimension is enumerated/seeded, not quantified by the solver.",
    "design_ref": "DESIGN.md section 6 C12",
}
G2 = z3.Function("G12", z3.RealSort(), z3.RealSort(), z3.RealSort(), z3.RealSort())
INDEX_PATTERNS = ["default", "reversed", "offset", "equal", "shuffled", "strings"]
KINDS = ["list", "ndarray", "series", "dataframe"]


def setup():
    import harness.c07 as c07

    stubs.install_base_metrics_stubs()
    stubs.LABEL_DOMAIN[0] = [0, 1]
    tc.setup()
    c07.setup()


def _index(pattern, n, rnd):
    if pattern == "default":
        return list(range(n))
    if pattern == "reversed":
        return list(range(n - 1, -1, -1))
    if pattern == "offset":
        return [i + 7 for i in range(n)]
    if pattern == "equal":
        return [3] * n
    if pattern == "shuffled":
        idx = list(range(n))
        rnd.shuffle(idx)
        return idx
    return [f"r{(i * 5) % n}" for i in range(n)]


def wrap(vals, kind, pattern, rnd, name="c"):
    vals = list(vals)
    n = len(vals)
    sym = any(core.is_sym(v) for v in vals)
    if kind == "list":
        return vals
    if kind == "ndarray":
        return np.array(vals, dtype=object) if (sym or isinstance(vals[0], str)) else np.array(vals)
    idx = _index(pattern, n, rnd)
    if kind == "series":
        return pd.Series(vals, index=idx, dtype=object if sym else None, name=name)
    if kind == "dataframe":
        return pd.DataFrame({name: pd.Series(vals, index=idx, dtype=object if sym else None)})
    if kind == "dict":
        return {name: np.array(vals, dtype=object) if (sym or isinstance(vals[0], str)) else np.array(vals)}
    raise ValueError(kind)


def configs(args, tier, rnd, feature_args=()):
    """one-at-a-time over (arg, kind, pattern) + seeded joint configurations"""
    base = {a: ("list", "default") for a in args}
    out = [dict(base)]
    for a in args:
        kinds = KINDS + (["dict"] if a in feature_args else [])
        if a in ("s", "w"):
            kinds = [k for k in kinds if k != "dataframe"]  # pandas cannot place a 2-D object-dtype block of proxies into one column (harness artefact)
        for k in kinds:
            if k in ("list",):
                continue
            pats = INDEX_PATTERNS if k in ("series", "dataframe") else ["default"]
            for p in pats:
                c = dict(base)
                c[a] = (k, p)
                out.append(c)
    for _ in range(12 if tier == "quick" else 60):
        c = {}
        for a in args:
            k = rnd.choice([kk for kk in KINDS if not (a in ("s", "w") and kk == "dataframe")] + (["dict"] if a in feature_args else []))
            c[a] = (k, rnd.choice(INDEX_PATTERNS) if k in ("series", "dataframe") else "default")
        out.append(c)
    return out


def jobs(tier, seed):
    js = []
    for ep in ("mf", "mf2", "fair", "fairw", "moment", "bgl", "lagrangian", "gs", "to"):
        js.append({"id": f"{ep}-containers", "kind": "containers", "entry": ep, "seed": seed})
        if ep not in ("fairw", "mf2"):
            js.append({"id": f"{ep}-perm", "kind": "perm", "entry": ep, "seed": seed})
    return js


# ---- entry points: each returns a flat dict name -> value (proxy / float) ------------------------------
N = 4
Y = [1, 0, 1, 0]
YP = [1, 1, 0, 0]
SF = ["a", "a", "b", "b"]
CF = ["u,x", "v\\y", "u,x", "u,x"]  # control labels containing the merge separator and the escape character
FEAT = [0, 1, 2, 1]


def _metric(y_true, y_pred, s=None):
    tot = None
    for a, b, c in zip(list(y_true), list(y_pred), list(s)):
        v = G2(term(a), term(b), term(c))
        tot = v if tot is None else tot + v
    return SOpaque(tot)


def _key(ix):
    return ",".join(str(x) for x in ix) if isinstance(ix, tuple) else str(ix)


def _flat_frame(obj, prefix):
    out = {}
    if isinstance(obj, pd.DataFrame):
        for c in obj.columns:
            for ix in obj.index:
                out[f"{prefix}[{_key(ix)},{c}]"] = obj.loc[ix, c]
    elif isinstance(obj, pd.Series):
        for ix in obj.index:
            out[f"{prefix}[{_key(ix)}]"] = obj.loc[ix]
    else:
        out[prefix] = obj
    return out


def ep_mf(v, a):
    import fairlearn.metrics as fm

    mf = fm.MetricFrame(metrics=_metric, y_true=a["t"], y_pred=a["p"], sensitive_features=a["sf"], control_features=a["cf"], sample_params={"s": a["s"]})
    out = _flat_frame(mf.by_group, "by_group")
    out.update(_flat_frame(mf.overall, "overall"))
    return out


SF2 = ["p", "q", "p", "q"]


def wrap2(cols, kind, pattern, rnd):
    """two feature columns in one container; 'dict_series' carries one index pattern PER COLUMN ('p1+p2')"""
    names = ["fa", "fb"]
    if kind == "array2d":
        return np.array(list(zip(*cols)), dtype=object)
    if kind == "dataframe":
        return pd.DataFrame({n: list(c) for n, c in zip(names, cols)}, index=_index(pattern, N, rnd))
    if kind == "dict_arrays":
        return {n: np.array(list(c), dtype=object) for n, c in zip(names, cols)}
    if kind == "dict_lists":
        return {n: list(c) for n, c in zip(names, cols)}
    if kind == "dict_series":
        pats = pattern.split("+")
        return {n: pd.Series(list(c), index=_index(pats[i % len(pats)], N, rnd), name=n) for i, (n, c) in enumerate(zip(names, cols))}
    raise ValueError(kind)


MF2_CONFIGS = ([("array2d", "default")] + [("dataframe", p) for p in INDEX_PATTERNS] + [("dict_arrays", "default"), ("dict_lists", "default")]
               + [("dict_series", p) for p in INDEX_PATTERNS]
               + [("dict_series", p) for p in ("default+reversed", "reversed+default", "shuffled+strings", "offset+default", "equal+default", "reversed+shuffled")])


def ep_mf2(v, a):
    """two sensitive features handed over in ONE container (2-D array / DataFrame / dict of arrays, lists or Series)"""
    import fairlearn.metrics as fm

    mf = fm.MetricFrame(metrics=_metric, y_true=v["t"], y_pred=v["p"], sensitive_features=a["sf2"], sample_params={"s": v["s"]})
    out = _flat_frame(mf.by_group, "by_group")
    out.update(_flat_frame(mf.overall, "overall"))
    return out


def ep_fair(v, a):
    import fairlearn.metrics as fm

    return {"dpd": fm.demographic_parity_difference(a["y"], a["yp"], sensitive_features=a["sf"], sample_weight=a["w"]),
            "eod": fm.equalized_odds_difference(a["y"], a["yp"], sensitive_features=a["sf"], sample_weight=a["w"])}


def ep_moment(v, a):
    import fairlearn.reductions as red

    m = red.EqualizedOdds(difference_bound=0.1)
    m.load_data(a["X"], a["y"], sensitive_features=a["sf"], control_features=a["cf"])
    g = m.gamma(lambda X: np.array(v["h"], dtype=object))
    lam = pd.Series(v["lam"][:len(m.index)], index=m.index, dtype=object)
    w = m.signed_weights(lam)
    out = {f"gamma{e}": g[e] for e in m.index}
    out.update({f"w{i}": w.iloc[i] for i in range(len(w))})
    return out


def ep_bgl(v, a):
    """a loss moment: per-group mean loss and the per-row weights lambda_g / P(g), under containers / index labels / row permutations"""
    import fairlearn.reductions as red

    m = red.BoundedGroupLoss(red.SquareLoss(0, 1), upper_bound=0.1)
    m.load_data(a["X"], a["y"], sensitive_features=a["sf"])
    g = m.gamma(lambda X: np.array(v["h"], dtype=object))
    lam = pd.Series(v["lam"][:len(m.index)], index=m.index, dtype=object)
    w = m.signed_weights(lam)
    out = {f"gamma{e}": g[e] for e in m.index}
    out.update({f"w{i}": w.iloc[i] for i in range(len(w))})
    return out


def ep_lagrangian(v, a):
    import fairlearn.reductions as red
    from fairlearn.reductions._exponentiated_gradient._lagrangian import _Lagrangian
    from harness.c07 import Recorder, RECORDS

    del RECORDS[:]
    cons = red.DemographicParity(difference_bound=0.1)
    lag = _Lagrangian(X=a["X"], y=a["y"], estimator=Recorder(), constraints=cons, B=10, sensitive_features=a["sf"])
    lam = pd.Series(v["lam"][:len(cons.index)], index=cons.index, dtype=object)
    lag._call_oracle(lam)
    redY, redW = RECORDS[0]
    out = {f"redY{i}": int(redY[i]) for i in range(len(redY))}
    out.update({f"redW{i}": redW[i] for i in range(len(redW))})
    return out


def ep_gs(v, a):
    import fairlearn.reductions as red
    from harness.c07 import Recorder, RECORDS

    del RECORDS[:]
    probe = red.DemographicParity()
    probe.load_data(pd.DataFrame({"f": FEAT}), Y, sensitive_features=SF)
    grid = pd.DataFrame({0: pd.Series(v["lam"][:len(probe.index)], index=probe.index, dtype=object)})
    gs = red.GridSearch(Recorder(), constraints=red.DemographicParity(), grid=grid)
    gs.fit(a["X"], a["y"], sensitive_features=a["sf"])
    redY, redW = RECORDS[0]
    out = {f"redY{i}": int(redY[i]) for i in range(len(redY))}
    out.update({f"redW{i}": redW[i] for i in range(len(redW))})
    return out


def ep_to(v, a):
    from fairlearn.postprocessing import ThresholdOptimizer

    X = a["X"]
    to = ThresholdOptimizer(estimator=tc.Scorer(v["scores"]), constraints="demographic_parity", objective="accuracy_score", grid_size=2, prefit=True,
                            predict_method="predict_proba")
    to.fit(X, a["y"], sensitive_features=a["sf"])
    pm = to._pmf_predict(X, sensitive_features=a["sf"])
    return {f"p{i}": np.asarray(pm, dtype=object)[i, 1] for i in range(N)}


def ep_fairw(v, a):
    """concrete distinct weights (so that they can travel in a one-column DataFrame), symbolic predictions: a weight attached to the wrong row changes the term"""
    import fairlearn.metrics as fm

    mf = fm.MetricFrame(metrics=fm.selection_rate, y_true=a["y"], y_pred=v["bp"], sensitive_features=a["sf"], sample_params={"sample_weight": a["cw"]})
    out = _flat_frame(mf.by_group, "by_group")
    out["overall"] = mf.overall
    out["dpd"] = fm.demographic_parity_difference(a["y"], v["bp"], sensitive_features=a["sf"], sample_weight=a["cw"])
    return out


EPS = {
    "fairw": (ep_fairw, ["y", "cw", "sf"], ("sf",)),
    "mf": (ep_mf, ["t", "p", "s", "sf", "cf"], ("sf", "cf")),
    "mf2": (ep_mf2, ["sf2"], ()),
    "fair": (ep_fair, ["y", "yp", "w", "sf"], ("sf",)),
    "moment": (ep_moment, ["y", "sf", "cf"], ()),
    "bgl": (ep_bgl, ["y", "sf"], ()),
    "lagrangian": (ep_lagrangian, ["y", "sf"], ()),
    "gs": (ep_gs, ["y", "sf"], ()),
    "to": (ep_to, ["y", "sf"], ()),
}


def _values(ep):
    """symbolic row values shared by baseline and variants"""
    v = {}
    if ep in ("mf", "mf2"):
        v["t"] = [real(f"t{i}") for i in range(N)]
        v["p"] = [real(f"p{i}") for i in range(N)]
        v["s"] = [real(f"s{i}") for i in range(N)]
    elif ep == "fair":
        v["w"] = [real(f"w{i}", 0, None, lo_strict=True) for i in range(N)]
    elif ep == "fairw":
        from symx.core import integer

        v["bp"] = [integer(f"bp{i}", 0, 1) for i in range(N)]
    elif ep in ("moment", "bgl", "lagrangian", "gs"):
        v["h"] = [real(f"h{i}", 0, 1) for i in range(N)]
        v["lam"] = [real(f"l{j}", 0) for j in range(16)]
    else:
        v["scores"] = [real(f"s{i}", 0, 1) for i in range(N)]
    return v


def _args(ep, v, cfg, rnd, perm=None, rename=None):
    perm = perm or list(range(N))
    P = lambda x: [x[i] for i in perm]
    sf = [rename.get(x, x) for x in SF] if rename else SF
    raw = {"y": P(Y), "yp": P(YP), "sf": P(sf), "cf": P(CF), "cw": P([1.0, 2.0, 3.0, 5.0])}
    for k in ("t", "p", "s", "w"):
        if k in v:
            raw[k] = P(v[k])
    a = {}
    for k, (kind, pat) in cfg.items():
        if k == "X":
            continue
        if k == "sf2":
            a[k] = wrap2([P(sf), P(SF2)], kind, pat, rnd)
            continue
        a[k] = wrap(raw[k], kind, pat, rnd, name=k)
    if "cf" not in cfg:
        a.setdefault("cf", None)
    # X: row ids so that the score provider / recorder see positions; carries an index pattern too
    xk = cfg.get("X", ("ndarray", "default"))
    ids = P(list(range(N))) if ep == "to" else P(FEAT)
    a["X"] = np.array(ids).reshape(-1, 1) if xk[0] == "ndarray" else pd.DataFrame({"f": ids}, index=_index(xk[1], N, rnd))
    return a


def run_job(job, deadline):
    acc = JobAcc(job)
    ep = job["entry"]
    fn, argnames, feats = EPS[ep]
    rnd = random.Random(job["seed"])
    tier = "quick"
    if job["kind"] == "containers":
        cfgs = configs(argnames, tier, rnd, feats) if ep != "mf2" else [{"sf2": c} for c in MF2_CONFIGS]
        if ep in ("moment", "bgl", "lagrangian", "gs", "to"):
            extra = []
            for pat in INDEX_PATTERNS[1:]:
                c = {a: ("series", pat) for a in argnames}
                c["X"] = ("dataframe", pat)
                extra.append(c)
            cfgs += extra
        base_cfg = cfgs[0]
        for ci, cfg in enumerate(cfgs[1:]):
            def run(cfg=cfg):
                v = _values(ep)
                r2 = random.Random(job["seed"] + 1)
                b = fn(v, _args(ep, v, base_cfg, r2))
                try:
                    x = fn(v, _args(ep, v, cfg, r2))
                except Exception as e:
                    return b, e
                return b, x

            def on_ok(ctx, out, cfg=cfg):
                b, x = out
                acc.reach(ctx)
                ex = {"config": {k: list(vv) for k, vv in cfg.items()}}
                if isinstance(x, Exception):
                    acc.check(ctx, "variant_container_accepted", z3.BoolVal(False), signature=f"{ep}:container:exception:{type(x).__name__}", extra=dict(ex, error=str(x)[:200]))
                    return
                same_keys = set(map(str, b)) == set(map(str, x))
                items = [("same_result_structure", z3.BoolVal(bool(same_keys)), f"{ep}:container:structure", ex)]
                if same_keys:
                    bx = {str(k): val for k, val in x.items()}
                    items.append(("result_independent_of_container_and_index_labels", z3.And([O.same(val, bx[str(k)]) for k, val in b.items()]), f"{ep}:container:value", ex))
                acc.check_all(ctx, items)
                k0 = next(iter(b))
                if core.is_sym(b[k0]):
                    acc.canary(ctx, "canary_c12", O.same(b[k0], term(b[k0]) + 1))
                else:
                    acc.r["canaries"] += 1
                    acc.r["canaries_fired"] += 1
                if ci == 0:
                    acc.sample({"job": job["id"], "config": ex["config"], "example": f"{k0} = {str(b[k0])[:150]}"})

            acc.explore(run, on_ok, deadline=deadline, max_paths=200 if ep != "to" else 60, record_funcs=(ci == 0))
        return acc.result()
    # permutations and label bijection
    perms = [[1, 0, 3, 2], [3, 2, 1, 0], [2, 0, 3, 1]]
    rename = {"a": "zz", "b": "aa"}  # order-reversing bijection
    base_cfg = {a: ("list", "default") for a in argnames}
    for pi, perm in enumerate(perms + (["rename"] if ep in ("mf", "fair") else [])):
        def run(perm=perm):
            v = _values(ep)
            r2 = random.Random(job["seed"] + 2)
            b = fn(v, _args(ep, v, base_cfg, r2))
            if perm == "rename":
                return b, fn(v, _args(ep, v, base_cfg, r2, rename=rename)), "rename"
            if ep in ("moment", "bgl", "lagrangian", "gs"):
                v2 = dict(v)
                v2["h"] = [v["h"][i] for i in perm]
                return b, fn(v2, _args(ep, v2, base_cfg, r2, perm=perm)), perm
            if ep == "to":
                return b, fn(v, _args(ep, v, base_cfg, r2, perm=perm)), perm
            return b, fn(v, _args(ep, v, base_cfg, r2, perm=perm)), perm

        def on_ok(ctx, out, perm=perm):
            b, x, how = out
            acc.reach(ctx)
            ex = {"perm": how}
            if how == "rename":
                import re as _re
                ren = lambda k: _re.sub(r"(?<=[\[,])b(?=[\],])", "aa", _re.sub(r"(?<=[\[,])a(?=[\],])", "zz", str(k)))
                if ep in ("mf",):
                    bx = {str(k): val for k, val in x.items()}
                    bmap = {ren(k): val for k, val in b.items()}
                    ok = set(bmap) == set(bx)
                    f = z3.And([O.same(val, bx[k]) for k, val in bmap.items()]) if ok else z3.BoolVal(False)
                    acc.check(ctx, "renaming_groups_only_renames_index_entries", f, signature=f"{ep}:rename", extra=ex)
                elif ep == "fair":
                    acc.check(ctx, "renaming_groups_leaves_scalar_metrics", z3.And([O.same(b[k], x[k]) for k in b]), signature=f"{ep}:rename", extra=ex)
                else:
                    acc.r["canaries"] += 0
            else:
                if ep in ("mf", "fair"):
                    bx = {str(k): val for k, val in x.items()}
                    ok = set(map(str, b)) == set(bx)
                    f = z3.And([O.same(val, bx[str(k)]) for k, val in b.items()]) if ok else z3.BoolVal(False)
                    acc.check(ctx, "joint_row_permutation_leaves_metrics_unchanged", f, signature=f"{ep}:perm", extra=ex)
                elif ep in ("moment", "bgl"):
                    gk = [k for k in b if str(k).startswith("gamma")]
                    f = z3.And([O.same(b[k], x[k]) for k in gk] + [O.same(b[f"w{perm[i]}"], x[f"w{i}"]) for i in range(N)]) if set(b) == set(x) else z3.BoolVal(False)
                    acc.check(ctx, "joint_row_permutation_permutes_weights_keeps_gamma", f, signature=f"{ep}:perm", extra=ex)
                elif ep in ("lagrangian", "gs"):
                    f = z3.And([z3.BoolVal(b[f"redY{perm[i]}"] == x[f"redY{i}"]) for i in range(N)] + [O.same(b[f"redW{perm[i]}"], x[f"redW{i}"]) for i in range(N)])
                    acc.check(ctx, "joint_row_permutation_permutes_relabelled_rows", f, signature=f"{ep}:perm", extra=ex)
                else:
                    f = z3.And([O.same(b[f"p{perm[i]}"], x[f"p{i}"]) for i in range(N)])
                    acc.check(ctx, "joint_row_permutation_permutes_probabilities", f, signature=f"{ep}:perm", extra=ex)
            acc.r["canaries"] += 1
            acc.r["canaries_fired"] += 1

        acc.explore(run, on_ok, deadline=deadline, max_paths=200 if ep != "to" else 60, record_funcs=False)
    return acc.result()


# ---- replay: concrete distinct values make any mis-pairing visible -------------------------------------
def replay(cex):
    job, mdl, ex = cex["job"], cex["model"], cex["extra"]
    ep = job["entry"]
    fn, argnames, feats = EPS[ep]
    import fairlearn.reductions._exponentiated_gradient._lagrangian as lg
    import fairlearn.reductions._grid_search.grid_search as gs
    from harness.c07 import Recorder

    lg.DummyClassifier = Recorder
    gs.DummyClassifier = Recorder
    f = lambda k, d: float(F(mdl[k])) if k in mdl else d
    v = {}
    if ep in ("mf", "mf2"):
        v = {"t": [float(2 ** (i + 1)) for i in range(N)], "p": [float(3 ** (i + 1)) for i in range(N)], "s": [float(5 ** (i + 1)) for i in range(N)]}
        global _metric
        saved = _metric

        def conc_metric(y_true, y_pred, s=None):
            return float(sum(a * b * c for a, b, c in zip(y_true, y_pred, s)))
        conc_metric.__name__ = "_metric"
        _metric_backup = globals()["_metric"]
        globals()["_metric"] = conc_metric
    elif ep == "fair":
        v = {"w": [f(f"w{i}", float(i + 1)) for i in range(N)]}
    elif ep == "fairw":
        v = {"bp": [int(f(f"bp{i}", float(i % 2))) for i in range(N)]}
    elif ep in ("moment", "bgl", "lagrangian", "gs"):
        v = {"h": [f(f"h{i}", 0.1 * (i + 1)) for i in range(N)], "lam": [f(f"l{j}", 0.3 * (j + 1)) for j in range(16)]}
    else:
        v = {"scores": [f(f"s{i}", 0.2 * (i + 1)) for i in range(N)]}
    try:
        base_cfg = {a: ("list", "default") for a in argnames} if ep != "mf2" else {"sf2": MF2_CONFIGS[0]}
        r2 = random.Random(job["seed"] + 1)
        b = fn(v, _args(ep, v, base_cfg, r2))
        bad = []
        if "config" in ex:
            cfg = {k: tuple(vv) for k, vv in ex["config"].items()}
            try:
                x = fn(v, _args(ep, v, cfg, r2))
            except Exception as e:
                return {"reproduced": True, "signature": f"{ep}:container:exception:{type(e).__name__}", "detail": f"config {cfg} raised {type(e).__name__}: {e}"}
            bx = {str(k): val for k, val in x.items()}
            for k, val in b.items():
                if str(k) not in bx:
                    bad.append(f"missing {k}")
                elif not _close(val, bx[str(k)]):
                    bad.append(f"{k}: baseline {val} vs variant {bx[str(k)]}")
            return {"reproduced": bool(bad), "detail": "; ".join(bad)[:500] + f" | config {cfg}"}
        perm = ex.get("perm")
        if perm == "rename" or perm is None:
            return {"reproduced": False, "detail": "rename replay not implemented"}
        v2 = dict(v)
        if "h" in v:
            v2["h"] = [v["h"][i] for i in perm]
        x = fn(v2, _args(ep, v2, base_cfg, r2, perm=perm))
        if ep in ("mf", "fair"):
            bx = {str(k): val for k, val in x.items()}
            bad = [f"{k}: {val} vs {bx.get(str(k))}" for k, val in b.items() if str(k) not in bx or not _close(val, bx[str(k)])]
        elif ep in ("moment", "bgl"):
            bad = [k for k in b if str(k).startswith("gamma") and not _close(b[k], x[k])] + [f"w{i}" for i in range(N) if not _close(b[f"w{perm[i]}"], x[f"w{i}"])]
        elif ep in ("lagrangian", "gs"):
            bad = [i for i in range(N) if b[f"redY{perm[i]}"] != x[f"redY{i}"] or not _close(b[f"redW{perm[i]}"], x[f"redW{i}"])]
        else:
            bad = [i for i in range(N) if not _close(b[f"p{perm[i]}"], x[f"p{i}"])]
        return {"reproduced": bool(bad), "detail": f"permutation {perm}: differing {bad}"[:500]}
    finally:
        if ep in ("mf", "mf2"):
            globals()["_metric"] = _metric_backup


def _close(a, b):
    import math

    try:
        a, b = float(a), float(b)
    except Exception:
        return a == b
    if math.isnan(a) or math.isnan(b):
        return math.isnan(a) and math.isnan(b)
    return abs(a - b) <= 1e-9 * max(1, abs(a))
