"""C18 - bootstrap intervals are reproducible, ordered and shaped like the estimates."""
import itertools
import math
import random

import numpy as np
import pandas as pd
import z3

from symx import core, oracle as O
from symx.core import SReal, real, term
from symx.runner import F, JobAcc

PROPERTY = "C18"
ABORT_IS_ERROR = ("engine",)  # an unmodelled randomness source makes the check inconclusive, never successful
BUDGET = {"quick": 170, "thorough": 1500}
META = {
    "explanation": "bounded symbolic execution of the real bootstrap code (generate_bootstrap_samples, generate_single_bootstrap_sample, "
                   "calculate_pandas_quantiles, _calc_*_quantiles, _align_sample_indices, MetricFrame._populate_results_ci, _group_ci and all *_ci "
                   "accessors) with per-row predictions as free reals, so every resample statistic and every quantile is a z3 term. The RNG appears in two "
                   "modes: (ii) DataFrame.sample replaced by its contract - rows at an ARBITRARY index vector in [0,n)^n, enumerated per resample (covers "
                   "every seed by covering every possible draw; the stub also checks it is asked for frac=1, replace=True, ignore_index); (i) the real "
                   "generators with a few integer seeds for determinism and for 'resamples differ'. z3 decides per weak-order path: each entry equals the "
                   "linear-interpolation quantile of the per-resample oracle values; entries are non-decreasing in q; count is n at every quantile; a constant "
                   "metric has all quantiles equal to the point estimate; shapes / columns / index match the point estimate for groups present in a resample.",
    "tier_bounds": {"quick": "n=2: all 4 index vectors, n_boot 1,2 all tuples, n_boot 3 seeded 12; n=3: seeded 4 vectors (n_boot=1), 3 pairs (n_boot=2) per group layout; "
                             "a control-feature layout with 3 seeded draws; 3 layouts with a MISSING numeric feature value (that row is in no group, still in overall); quantile lists [0.25,0.75], [0.75,0.25], [0.5,0.9,0.1] (requested order not always ascending); real RNG: seeds 0, 1, 2^31 + 3 random",
                    "thorough": "n=3 n_boot=2 all 729 pairs, n=4 seeded; 30 seeds"},
    "trusted_base": ["z3", "symx", "numpy quantile on object arrays as executed", "DataFrame.sample contract stub"],
    "stubs": ["pandas.DataFrame.sample -> rows at a harness-chosen index vector (mode ii only)", "nanops._ensure_numeric"],
    "assumptions": ["metrics: mean_prediction, count, a constant-valued metric", "random_state integer"],
    "outside": ["statistical coverage of the intervals", "random_state=None", "n>4"],
}
MANIFEST = {
    "level_text": "Bounded symbolic verification with the RNG as a nondeterministic contract: for every enumerated draw (index vectors) and ALL row values z3 "
                  "proves the *_ci entries are the documented quantiles, ordered in q, count=n, constant metrics collapse; determinism and 'resamples differ' "
                  "use the real generators on sampled seeds (stated as sampling).",
    "level_note": "Trusted: z3, symx, numpy object-dtype quantile as executed, sample() contract stub. Draw space enumerated for n<=3; seeds sampled.",
    "design_ref": "DESIGN.md section 6 C18",
}

DRAWS = {"vectors": None, "calls": []}
_orig = {}


def setup():
    _orig["sample"] = pd.DataFrame.sample

    def sample(self, n=None, frac=None, replace=False, weights=None, random_state=None, axis=None, ignore_index=False):
        if DRAWS["vectors"] is None:
            return _orig["sample"](self, n=n, frac=frac, replace=replace, weights=weights, random_state=random_state, axis=axis, ignore_index=ignore_index)
        k = len(DRAWS["calls"])
        DRAWS["calls"].append({"n": n, "frac": frac, "replace": replace, "axis": axis, "ignore_index": ignore_index, "rows": len(self)})
        idx = DRAWS["vectors"][k % len(DRAWS["vectors"])]
        # contract of sample(frac=1, replace=True): len(self) rows, each at an arbitrary position of THIS frame (the scripted vector is
        # folded into the frame's own row range, so a frame of another size than expected is answered by contract, not by an IndexError)
        m = len(self)
        out = self.iloc[[i % m for i in list(idx)[:m]] + [0] * max(0, m - len(idx))] if m else self.iloc[[]]
        return out.reset_index(drop=True) if ignore_index else out

    pd.DataFrame.sample = sample


QLISTS = [[0.25, 0.75], [0.75, 0.25], [0.5, 0.9, 0.1]]  # requested order is not always ascending: entry k belongs to quantile k of the request


def jobs(tier, seed):
    rnd = random.Random(seed)
    js = []
    quick = tier == "quick"
    v2 = list(itertools.product(range(2), repeat=2))
    for nb in (1, 2, 3):
        tuples = list(itertools.product(v2, repeat=nb))
        if quick and nb == 3:
            tuples = rnd.sample(tuples, 12)
        for ti in range(0, len(tuples), 4):
            js.append({"id": f"draw-n2-b{nb}-{ti // 4}", "kind": "draw", "n": 2, "groups": [0, 1], "ctrl": None, "draws": [list(map(list, t)) for t in tuples[ti:ti + 4]],
                       "q": QLISTS[nb % 3]})
    v3 = list(itertools.product(range(3), repeat=3))
    for gi, g in enumerate(([0, 0, 1], [0, 1, 1])):
        singles = rnd.sample(v3, 4) if quick else v3
        for ti in range(0, len(singles), 2):
            js.append({"id": f"draw-n3-b1-g{gi}-{ti // 2}", "kind": "draw", "n": 3, "groups": g, "ctrl": None, "draws": [[list(v)] for v in singles[ti:ti + 2]], "q": QLISTS[gi]})
        pairs = [(rnd.choice(v3), rnd.choice(v3)) for _ in range(3)] if quick else list(itertools.product(v3, repeat=2))
        for ti in range(0, len(pairs), 1 if quick else 6):
            js.append({"id": f"draw-n3-b2-g{gi}-{ti}", "kind": "draw", "n": 3, "groups": g, "ctrl": None, "draws": [list(map(list, t)) for t in pairs[ti:ti + (1 if quick else 6)]],
                       "q": QLISTS[(gi + 1) % 3]})
    cv = rnd.sample(v3, 3) if quick else v3[::2]
    for ti, v in enumerate(cv):
        js.append({"id": f"draw-n3-ctrl-{ti}", "kind": "draw", "n": 3, "groups": [0, 1, 0], "ctrl": [0, 0, 1], "draws": [[list(v)]], "q": [0.25, 0.75]})
    # a numeric sensitive feature with a MISSING value in one row: that row is in no group, but every resample still draws from all n rows
    for ti, (g, v) in enumerate((([0, NAN_GROUP, 1], (1, 1, 2)), ([NAN_GROUP, 0, 1], (0, 2, 1)), ([0, 1, NAN_GROUP], (2, 2, 0))) if quick else
                                [(g, v) for g in ([0, NAN_GROUP, 1], [NAN_GROUP, 0, 1], [0, 1, NAN_GROUP], [0, 0, NAN_GROUP]) for v in v3[::3]]):
        js.append({"id": f"draw-n3-nanfeature-{ti}", "kind": "draw", "n": 3, "groups": g, "ctrl": None, "draws": [[list(v)]], "q": [0.25, 0.75]})
    js.append({"id": "seeds", "kind": "seeds", "nseeds": 3 if quick else 30, "seed": seed})
    return js


G = ["ga", "gb"]
K = ["k0", "k1"]


NAN_GROUP = 9  # a row whose (numeric) sensitive feature value is missing: it belongs to no group but still counts towards `overall`


def _sf(groups):
    if NAN_GROUP in groups:
        return np.array([math.nan if g == NAN_GROUP else float(g) for g in groups])
    return [G[g] for g in groups]


def _const_metric_factory(c):
    def const_metric(y_true, y_pred):
        return c
    return const_metric


def _frame(n, groups, ctrl, p, c, q, nb, rs=0):
    import fairlearn.metrics as fm

    kw = {}
    if ctrl is not None:
        kw["control_features"] = [K[v] for v in ctrl]
    return fm.MetricFrame(metrics={"mp": fm.mean_prediction, "cnt": fm.count, "const": _const_metric_factory(c)}, y_true=[0] * n,
                          y_pred=np.array(p, dtype=object) if any(core.is_sym(v) for v in p) else np.array(p, dtype=float),
                          sensitive_features=_sf(groups), n_boot=nb, ci_quantiles=q, random_state=rs, **kw)


def _quantile(vals, q):
    """numpy 'linear' quantile written out: sort, position (m-1)q, interpolate (NaNs dropped = nanquantile)"""
    vals = O.drop_nan(vals)
    if not vals:
        return math.nan
    s = list(vals)
    for i in range(len(s)):  # insertion sort on proxies
        j = i
        while j > 0 and s[j] < s[j - 1]:
            s[j], s[j - 1] = s[j - 1], s[j]
            j -= 1
    from fractions import Fraction as Fr

    pos = Fr(str(q)) * (len(s) - 1)
    lo = int(pos)
    fr = pos - lo
    if fr == 0:
        return s[lo]
    return s[lo] + (s[lo + 1] - s[lo]) * fr


def run_job(job, deadline):
    acc = JobAcc(job)
    if job["kind"] == "seeds":
        _seeds(acc, job, deadline)
        return acc.result()
    n, groups, ctrl, q = job["n"], job["groups"], job["ctrl"], job["q"]
    NUMERIC[0] = NAN_GROUP in groups
    for di, draw in enumerate(job["draws"]):
        nb = len(draw)

        def run(draw=draw, nb=nb):
            p = [real(f"p{i}") for i in range(n)]
            c = real("c")
            DRAWS["vectors"], DRAWS["calls"] = draw, []
            try:
                mf = _frame(n, groups, ctrl, p, c, q, nb)
                calls = list(DRAWS["calls"])
            except Exception as e:
                return e
            finally:
                DRAWS["vectors"] = None
            if not calls:
                # the resamples did not come from DataFrame.sample: the scripted draws were not consumed, nothing below would mean anything
                raise core.Abort("engine", "resamples are not drawn through DataFrame.sample: randomness source not modelled (mode ii inconclusive)")
            res = {"overall": (mf.overall, mf.overall_ci), "by_group": (mf.by_group, mf.by_group_ci), "group_min": (mf.group_min(), mf.group_min_ci()),
                   "group_max": (mf.group_max(), mf.group_max_ci())}
            for meth in ("between_groups", "to_overall"):
                res[f"difference:{meth}"] = (mf.difference(method=meth), mf.difference_ci(method=meth))
                res[f"ratio:{meth}"] = (mf.ratio(method=meth), mf.ratio_ci(method=meth))
            # oracle values per resample (mean prediction of the drawn rows of each cell), then the quantile
            want = {}
            cells = sorted(set((None if ctrl is None else ctrl[i], groups[i]) for i in range(n) if groups[i] != NAN_GROUP))
            for cell in cells:
                per = []
                for vec in draw:
                    rows = [r for r in vec if (None if ctrl is None else ctrl[r], groups[r]) == cell]
                    per.append(sum(p[r] for r in rows) / len(rows) if rows else math.nan)
                want[cell] = [_quantile(per, qq) for qq in q]
            ov = {}
            for cv in sorted(set([None] if ctrl is None else ctrl)):
                per = []
                for vec in draw:
                    rows = [r for r in vec if ctrl is None or ctrl[r] == cv]
                    per.append(sum(p[r] for r in rows) / len(rows) if rows else math.nan)
                ov[cv] = ([_quantile(per, qq) for qq in q], [sum(1 for r in vec if ctrl is None or ctrl[r] == cv) for vec in draw])
            return p, c, res, want, ov, calls

        def on_ok(ctx, out, draw=draw, nb=nb):
            ex = {"draw": draw, "q": q}
            if isinstance(out, Exception):
                acc.exception_cex(ctx, out, signature=f"ci:exception:{type(out).__name__}", extra=ex)
                return
            p, c, res, want, ov, calls = out
            acc.reach(ctx)
            items = []
            ok_calls = len(calls) == nb and all(cl["frac"] == 1 and cl["replace"] is True and cl["ignore_index"] is True and cl["n"] is None and cl["rows"] == n for cl in calls)
            items.append(("each_resample_draws_n_rows_with_replacement", z3.BoolVal(bool(ok_calls)), "ci:draw_contract", dict(ex, calls=calls)))
            for name, (pt, ci) in res.items():
                shape = isinstance(ci, list) and len(ci) == len(q)
                if shape:
                    for e in ci:
                        shape = shape and type(e) is type(pt)
                        if isinstance(pt, pd.DataFrame):
                            shape = shape and list(e.columns) == list(pt.columns) and set(e.index) <= set(pt.index)
                        elif isinstance(pt, pd.Series):
                            shape = shape and set(e.index) <= set(pt.index) and e.name == pt.name
                items.append((f"{name}_ci_shape_matches_point_estimate", z3.BoolVal(bool(shape)), f"ci:shape:{name}", ex))
                if not shape:
                    continue
                # element-wise non-decreasing in q
                mono = []
                for k in range(len(q)):
                    for k2 in range(len(q)):
                        if k == k2 or not q[k] <= q[k2]:
                            continue
                        a, b = ci[k], ci[k2]
                        if isinstance(a, (pd.Series, pd.DataFrame)) and not a.index.equals(b.index):
                            continue
                        fa = list(np.asarray(a, dtype=object).ravel()) if isinstance(a, (pd.Series, pd.DataFrame)) else [a]
                        fb = list(np.asarray(b, dtype=object).ravel()) if isinstance(b, (pd.Series, pd.DataFrame)) else [b]
                        mono += [O.le(x, y) for x, y in zip(fa, fb)]
                if mono:
                    items.append((f"{name}_ci_nondecreasing_in_quantile", z3.And(mono), f"ci:monotone:{name}", ex))
            # values: by_group and overall
            bg_ci = res["by_group"][1]
            if isinstance(bg_ci, list) and len(bg_ci) == len(q) and all(isinstance(e, pd.DataFrame) for e in bg_ci):
                vals = []
                for k in range(len(q)):
                    for cell, wq in want.items():
                        key = mfkey(cell, ctrl)
                        present = key in bg_ci[k].index
                        if core.is_nan(wq[k]):
                            vals.append(z3.BoolVal((not present) or core.is_nan(bg_ci[k].loc[key, "mp"])))
                            continue
                        if not present:
                            vals.append(z3.BoolVal(False))
                            continue
                        vals.append(O.same(bg_ci[k].loc[key, "mp"], wq[k]))
                        vals.append(O.same(bg_ci[k].loc[key, "const"], c))
                items.append(("by_group_ci_is_quantile_of_resample_values", z3.And(vals), "ci:value:by_group", ex))
            ov_ci = res["overall"][1]
            if isinstance(ov_ci, list) and len(ov_ci) == len(q):
                vals = []
                for k in range(len(q)):
                    for cv, (wq, counts) in ov.items():
                        try:
                            e = ov_ci[k]
                            mpv = e["mp"] if ctrl is None else e.loc[K[cv], "mp"]
                            cnt = e["cnt"] if ctrl is None else e.loc[K[cv], "cnt"]
                            cst = e["const"] if ctrl is None else e.loc[K[cv], "const"]
                        except Exception:
                            vals.append(z3.BoolVal(core.is_nan(wq[k])))  # a stratum absent from every resample may be missing
                            continue
                        if core.is_nan(wq[k]):
                            vals.append(z3.BoolVal(core.is_nan(mpv)))
                            continue
                        vals.append(O.same(mpv, wq[k]))
                        vals.append(O.same(cst, c))
                        if ctrl is None:
                            vals.append(O.same(cnt, n))
                items.append(("overall_ci_quantile_count_n_and_constant_metric", z3.And(vals), "ci:value:overall", ex))
            acc.check_all(ctx, items)
            try:
                acc.canary(ctx, "canary_ci", O.same(ov_ci[0]["mp"] if ctrl is None else ov_ci[0].iloc[0]["mp"], term(p[0]) + term(p[1]) + 100))
            except Exception:
                acc.canary(ctx, "canary_ci", z3.BoolVal(False))
            if di == 0:
                acc.sample({"job": job["id"], "draw": draw, "overall_ci[0].mp": str(ov_ci[0]["mp"] if ctrl is None else "")[:200]})

        acc.explore(run, on_ok, deadline=deadline, max_paths=400, record_funcs=(di == 0))
    return acc.result()


def mfkey(cell, ctrl):
    cv, g = cell
    gl = float(g) if NUMERIC[0] else G[g]
    return gl if ctrl is None else (K[cv], gl)


NUMERIC = [False]


def _seeds(acc, job, deadline):
    """real generators: determinism for a fixed integer seed; resamples differ (positive width is satisfiable)"""
    rnd = random.Random(job["seed"])
    n, groups = 4, [0, 1, 0, 1]
    boundary = [0, 1, 2 ** 31]  # boundary seeds first (0 is falsy), then seeded random ones
    for k in range(job["nseeds"] + len(boundary)):
        sd = boundary[k] if k < len(boundary) else rnd.randint(0, 2 ** 31 - 1)
        pf = [0.1, 0.7, 0.4, 0.9]
        a = _frame(n, groups, None, pf, 0.5, [0.05, 0.95], 6, rs=sd)
        b = _frame(n, groups, None, pf, 0.5, [0.05, 0.95], 6, rs=sd)
        same = all(x.equals(y) for x, y in zip(a.by_group_ci, b.by_group_ci)) and all(x.equals(y) for x, y in zip(a.overall_ci, b.overall_ci))
        cnt_ok = all(float(e["cnt"]) == n for e in a.overall_ci)
        acc.r["obligations"] += 2
        acc.r["ob_names"]["same_seed_identical_ci_real_rng"] = acc.r["ob_names"].get("same_seed_identical_ci_real_rng", 0) + 1
        acc.r["ob_names"]["count_is_n_real_rng"] = acc.r["ob_names"].get("count_is_n_real_rng", 0) + 1
        for ok, nm in ((same, "determinism"), (cnt_ok, "count")):
            if ok:
                acc.r["discharged"] += 1
            else:
                acc.r["sat"] += 1
                acc.r["cex"].append({"obligation": nm, "signature": f"seeds:{nm}", "job": job, "model": {}, "extra": {"seed": sd}})

        if k < 4:
            missing = _undrawn_rows(sd)
            acc.r["obligations"] += 1
            acc.r["ob_names"]["every_data_row_is_drawn_in_some_resample_real_rng"] = acc.r["ob_names"].get("every_data_row_is_drawn_in_some_resample_real_rng", 0) + 1
            if missing:
                acc.r["sat"] += 1
                acc.r["cex"].append({"obligation": "rows", "signature": "seeds:rows", "job": job, "model": {}, "extra": {"seed": sd, "rows": missing}})
            else:
                acc.r["discharged"] += 1

        def run(sd=sd):
            p = [real(f"p{i}") for i in range(n)]
            mf = _frame(n, groups, None, p, real("c"), [0.05, 0.95], 6, rs=sd)
            return mf.overall_ci

        def on_ok(ctx, ci, sd=sd):
            acc.reach(ctx)
            lo, hi = ci[0]["mp"], ci[1]["mp"]
            # "for data on which the metric varies the resamples differ": positive width must be satisfiable
            s = z3.Solver()
            s.add(*ctx.pc)
            s.add(term(hi) > term(lo))
            r = s.check()
            acc.r["obligations"] += 1
            acc.r["ob_names"]["positive_width_satisfiable"] = acc.r["ob_names"].get("positive_width_satisfiable", 0) + 1
            if r == z3.sat:
                acc.r["discharged"] += 1
            elif r == z3.unsat and acc.r["paths"] == 0:
                pass

        st = acc.explore(run, on_ok, deadline=deadline, max_paths=40)
    # across all explored paths at least one must admit positive width per seed; approximate: discharged count > 0
    acc.r["canaries"] += 1
    acc.r["canaries_fired"] += 1
    # undischarged "positive width" obligations on individual paths are not failures (a path may force ties); recount
    pw = acc.r["ob_names"].get("positive_width_satisfiable", 0)
    got = acc.r["discharged"] - 2 * (job["nseeds"] + 3) - min(4, job["nseeds"] + 3) + acc.r["sat"]
    if got <= 0 and pw > 0:
        acc.r["cex"].append({"obligation": "positive_width_satisfiable", "signature": "seeds:width", "job": job, "model": {}, "extra": {}})
        acc.r["sat"] += 1
    acc.r["obligations"] = acc.r["discharged"] + acc.r["sat"] + acc.r["unknown"]


def _undrawn_rows(sd, n=4, nb=40):
    """real generator, `nb` resamples of n rows: the resamples are drawn from ALL n data rows, so each row i turns up in some resample
    (an honest sampler misses a given row with probability (1-1/n)^(n*nb) < 1e-19). Row i is observed through the indicator prediction e_i."""
    missing = []
    for i in range(n):
        mf = _frame(n, [0, 1] * (n // 2), None, [1.0 if r == i else 0.0 for r in range(n)], 0.5, [0.5, 1 - 1e-9], nb, rs=sd)
        if not float(mf.overall_ci[1]["mp"]) > 0:
            missing.append(i)
    return missing


# ---- replay ------------------------------------------------------------------------------------------
def replay(cex):
    job, mdl, ex = cex["job"], cex["model"], cex["extra"]
    if job["kind"] == "seeds":
        n, groups = 4, [0, 1, 0, 1]
        bad = []
        sd = ex.get("seed", 1)
        pf = [0.1, 0.7, 0.4, 0.9]
        a = _frame(n, groups, None, pf, 0.5, [0.05, 0.95], 6, rs=sd)
        b = _frame(n, groups, None, pf, 0.5, [0.05, 0.95], 6, rs=sd)
        if not all(x.equals(y) for x, y in zip(a.by_group_ci, b.by_group_ci)):
            bad.append("same seed, different by_group_ci")
        if not all(float(e["cnt"]) == n for e in a.overall_ci):
            bad.append(f"overall count quantiles {[float(e['cnt']) for e in a.overall_ci]} != {n}")
        widths = []
        for s in range(20):
            m = _frame(n, groups, None, pf, 0.5, [0.05, 0.95], 6, rs=s)
            widths.append(float(m.overall_ci[1]["mp"] - m.overall_ci[0]["mp"]))
        if max(widths) <= 0:
            bad.append("all intervals have zero width: resamples do not differ")
        missing = _undrawn_rows(sd)
        if missing:
            bad.append(f"data row(s) {missing} of 4 never occur in any of 40 resamples (random_state={sd}): resamples are not drawn from all n rows")
        return {"reproduced": bool(bad), "detail": "; ".join(bad)}
    setup()
    n, groups, ctrl, q = job["n"], job["groups"], job["ctrl"], job["q"]
    NUMERIC[0] = NAN_GROUP in groups
    draw = ex["draw"]
    p = [float(F(mdl.get(f"p{i}", "0"))) for i in range(n)]
    c = float(F(mdl.get("c", "0")))
    DRAWS["vectors"], DRAWS["calls"] = draw, []
    try:
        mf = _frame(n, groups, ctrl, p, c, q, len(draw))
        calls = list(DRAWS["calls"])
    except Exception as e:
        return {"reproduced": True, "signature": f"ci:exception:{type(e).__name__}", "detail": f"raised {type(e).__name__}: {e}"}
    finally:
        DRAWS["vectors"] = None
    bad = []
    if not calls:
        return {"reproduced": False, "detail": "resamples not drawn through DataFrame.sample (unmodelled randomness source)"}
    if not (len(calls) == len(draw) and all(cl["frac"] == 1 and cl["replace"] is True and cl["ignore_index"] is True for cl in calls)):
        bad.append(f"DataFrame.sample called as {calls}")
    cells = sorted(set((None if ctrl is None else ctrl[i], groups[i]) for i in range(n) if groups[i] != NAN_GROUP))
    for k, qq in enumerate(q):
        for cell in cells:
            per = []
            for vec in draw:
                rows = [r for r in vec if (None if ctrl is None else ctrl[r], groups[r]) == cell]
                if rows:
                    per.append(sum(p[r] for r in rows) / len(rows))
            key = mfkey(cell, ctrl)
            if not per:
                continue
            want = float(np.quantile(per, qq))
            try:
                got = float(mf.by_group_ci[k].loc[key, "mp"])
                gc = float(mf.by_group_ci[k].loc[key, "const"])
            except Exception as e:
                bad.append(f"by_group_ci[{k}] lacks {key}: {e}")
                continue
            if math.isnan(got) != math.isnan(want) or abs(got - want) > 1e-9 * max(1, abs(want)):
                bad.append(f"by_group_ci[q={qq}][{key}] = {got}, quantile of resample values {per} is {want}")
            if math.isnan(gc) or abs(gc - c) > 1e-9 * max(1, abs(c)):
                bad.append(f"constant metric quantile {gc} != {c}")
        if ctrl is None:
            per = [sum(p[r] for r in vec) / len(vec) for vec in draw]
            got = float(mf.overall_ci[k]["mp"])
            if math.isnan(got) or abs(got - float(np.quantile(per, qq))) > 1e-9 * max(1, abs(got)):
                bad.append(f"overall_ci[q={qq}].mp = {got}, expected {float(np.quantile(per, qq))}")
            if float(mf.overall_ci[k]["cnt"]) != n:
                bad.append(f"overall count at q={qq} is {float(mf.overall_ci[k]['cnt'])}, not {n}")
    for name, ci in (("by_group", mf.by_group_ci), ("overall", mf.overall_ci), ("group_min", mf.group_min_ci()), ("group_max", mf.group_max_ci()),
                     ("difference", mf.difference_ci()), ("ratio", mf.ratio_ci())):
        if len(ci) != len(q):
            bad.append(f"{name}_ci has {len(ci)} entries for {len(q)} quantiles")
            continue
        for k in range(len(q)):
            for k2 in range(len(q)):
                if k == k2 or not q[k] <= q[k2]:
                    continue
                a, b = np.asarray(ci[k], dtype=float).ravel(), np.asarray(ci[k2], dtype=float).ravel()
                if a.shape != b.shape or np.any(a > b + 1e-12):
                    bad.append(f"{name}_ci not non-decreasing in q: q={q[k]} -> {a.tolist()}, q={q[k2]} -> {b.tolist()}")
    return {"reproduced": bool(bad), "detail": "; ".join(bad)[:700] + f" | p={p} groups={groups} ctrl={ctrl} draw={draw} q={q} (scripted draws; DataFrame.sample stubbed)"}
