"""C11 - sample weights mean multiplicity: weight k is k copies of the row."""
import itertools
import random

import numpy as np
import z3

from symx import core, oracle as O, stubs
from symx.core import integer, real, term
from symx.runner import F, JobAcc

PROPERTY = "C11"
BUDGET = {"quick": 170, "thorough": 1500}
META = {
    "explanation": "bounded symbolic execution of the real base rates, selection_rate, mean_prediction, MetricFrame(sample_params) and the named fairness "
                   "metrics, run TWICE per path on related inputs and compared as z3 terms: (a) integer weights k_i vs the data set with row i repeated k_i "
                   "times and no weights (labels/predictions symbolic and shared between the copies); (b) weights w vs c*w for a symbolic c>0; (c) all-ones "
                   "weights vs no weights. Labels/predictions are symbolic 0/1 integers (reals for mean_prediction), weights symbolic positive reals in (b). "
                   "Multiplicities k_i change the row count and are structural.",
    "tier_bounds": {"quick": "(MetricFrame with fully symbolic weights: n<=2) n<=3 rows, multiplicities in {1,2,3} with sum<=6, 1..2 groups (incl. single-row groups), functions: 4 rates, selection_rate, "
                             "mean_prediction, MetricFrame by_group/overall of selection_rate and true_positive_rate, demographic_parity_difference/ratio, "
                             "equalized_odds_difference, equal_opportunity_ratio, derived-metric objects selection_rate_difference, true_positive_rate_ratio and a "
                             "make_derived_metric(selection_rate, group_min) object shared by all calls of a path (weighted call first, unweighted afterwards)",
                    "thorough": "everything with n<=3 rows (multiplicities 1..3, up to 3 groups); n=4: a seeded sample of 50 multiplicity structures per family, "
                                "the scaling identities with symbolic factor for all group layouts, with symbolic weights for the base metrics only"},
    "trusted_base": ["z3", "symx", "confusion_matrix / unique stubs (validated)"],
    "stubs": ["_base_metrics.skm.confusion_matrix", "_base_metrics.np.unique", "nanops._ensure_numeric"],
    "assumptions": ["weights > 0", "labels in {0,1}", "exact reals"],
    "outside": ["n beyond bound", "sklearn base metrics"],
}
MANIFEST = {
    "level_text": "Bounded symbolic relational verification: for each multiplicity structure z3 proves equality of the two runs' results for ALL labels, "
                  "predictions, weights and scalings (the scaling identity is a rational-function identity no sampling settles).",
    "level_note": "Trusted: z3, symx, sklearn confusion_matrix stub (validated). n<=3/4, multiplicities<=3.",
    "design_ref": "DESIGN.md section 6 C11",
}


_DEFAULT_DECIDE_MS = core.DECIDE_TIMEOUT_MS


def setup():
    stubs.install_base_metrics_stubs()
    stubs.LABEL_DOMAIN[0] = [0, 1]


def prechecks():
    it = stubs.validate_confusion_matrix_stub(seed=2, cases=12)
    return {"ok": it["ok"], "items": [it]}


def jobs(tier, seed):
    js = []
    rnd = random.Random(seed)
    nmax, smax, gmax = (3, 6, 2) if tier == "quick" else (4, 9, 3)
    for n in range(1, nmax + 1):
        for ks in itertools.product([1, 2, 3], repeat=n):
            if sum(ks) > smax:
                continue
            if tier == "quick" and n == 3 and ks not in ((1, 1, 1), (2, 1, 1)):
                continue
            for g in core.rgs(n, gmax):
                if tier == "quick" and n == 3 and tuple(g) not in ((0, 0, 1), (0, 1, 0)):
                    continue
                for fam in ("base", "frame", "fair"):
                    if fam == "fair" and (len(set(g)) < 2 or (tier == "quick" and n == 3)):
                        continue
                    # the scaling identity is bilinear in (c, w): linear slices (DESIGN 3.5(0)) - w symbolic x c in {2, 1/3}; c symbolic x seeded w
                    for mode in ("mult", "scale-w", "scale-c"):
                        if mode != "mult" and ks != tuple([1] * n):
                            continue
                        if tier == "quick" and mode == "scale-w" and fam == "frame" and n == 3:
                            continue  # symbolic weights x 3 symbolic rows inside MetricFrame: path feasibility alone takes 10-15 min (thorough tier only)
                        if mode == "scale-w" and fam != "base" and n == 4:
                            continue  # outside both tiers (stated): MetricFrame / fairness metrics with 4 symbolic rows AND 4 symbolic weights
                        js.append({"id": f"{fam}-{mode}-k{''.join(map(str, ks))}-g{''.join(map(str, g))}", "family": fam, "mode": mode, "ks": list(ks), "groups": list(g),
                                   "cw": [[1, 2, 3, 5][(i + len(js)) % 4] for i in range(n)]})
    if tier != "quick":
        # n = 4 multiplicity structures: a seeded sample of 50 per family (2700 structures do not fit the budget); everything with n <= 3 is kept
        small = [j for j in js if len(j["ks"]) <= 3 or j["mode"] != "mult"]
        big = [j for j in js if len(j["ks"]) == 4 and j["mode"] == "mult"]
        pick = []
        for fam in ("base", "frame", "fair"):
            fb = [j for j in big if j["family"] == fam]
            pick += rnd.sample(fb, min(50, len(fb)))
        js = small + pick
    # the expensive jobs (fully symbolic weights inside MetricFrame, 3 rows) go last so that they cannot starve the others
    js.sort(key=lambda j: (j["mode"] == "scale-w" and j["family"] != "base" and len(j["ks"]) >= 3))
    return js


NAMED = [False]


def _feat(sf):
    """every other job: the sensitive feature arrives as a pandas Series that is NAMED like the sample parameter ("sample_weight") - feature names and
    the internal columns that carry sample parameters must not collide"""
    import pandas as pd

    return pd.Series(list(sf), name="sample_weight") if NAMED[0] else list(sf)


def _calls(fam, fm, groups_labels):
    """list of (name, fn(yt, yp, w_or_None) -> result)"""
    sf = groups_labels
    if fam == "base":
        out = []
        for nm in ("true_positive_rate", "false_negative_rate", "false_positive_rate", "true_negative_rate"):
            out.append((nm, lambda yt, yp, w, sf, nm=nm: getattr(fm, nm)(yt, yp, **({} if w is None else {"sample_weight": w}))))
        out.append(("selection_rate", lambda yt, yp, w, sf: fm.selection_rate(yt, yp, **({} if w is None else {"sample_weight": w}))))
        return out
    import pandas as pd

    def ser(w):
        """weights travel as a pandas Series whose index labels are NOT 0..n-1 in order (e.g. a column of a shuffled frame): rows are matched by position"""
        if w is None:
            return None
        return pd.Series(list(w), index=list(range(len(w)))[::-1], dtype=object)

    if fam == "frame":
        def frame(metric, what):
            def f(yt, yp, w, sf):
                w = ser(w)
                mf = fm.MetricFrame(metrics=metric, y_true=yt, y_pred=yp, sensitive_features=_feat(sf), sample_params=None if w is None else {"sample_weight": w})
                return mf.overall if what == "overall" else dict(mf.by_group)
            return f
        return [("MetricFrame(selection_rate).by_group", frame(fm.selection_rate, "by_group")), ("MetricFrame(selection_rate).overall", frame(fm.selection_rate, "overall")),
                ("MetricFrame(true_positive_rate).by_group", frame(fm.true_positive_rate, "by_group"))]
    mk = lambda fn, **kw: (lambda yt, yp, w, sf: fn(yt, yp, sensitive_features=_feat(sf), **kw, **({} if w is None else {"sample_weight": ser(w)})))
    return [("demographic_parity_difference", mk(fm.demographic_parity_difference)), ("demographic_parity_ratio", mk(fm.demographic_parity_ratio, method="to_overall")),
            ("equalized_odds_difference", mk(fm.equalized_odds_difference)), ("equal_opportunity_ratio", mk(fm.equal_opportunity_ratio)),
            # derived-metric OBJECTS (the generated module-level ones and a user-made one) are called several times per path - weighted, then unweighted:
            # a call must not remember the sample parameters of an earlier call
            ("selection_rate_difference", mk(fm.selection_rate_difference)), ("true_positive_rate_ratio", mk(fm.true_positive_rate_ratio)),
            ("make_derived_metric(selection_rate, group_min)", mk(_user_derived(fm)))]


_DERIVED = {}


def _user_derived(fm):
    if "gm" not in _DERIVED:
        _DERIVED["gm"] = fm.make_derived_metric(metric=fm.selection_rate, transform="group_min")
    return _DERIVED["gm"]


def _same_res(a, b):
    if isinstance(a, dict) or isinstance(b, dict):
        if not (isinstance(a, dict) and isinstance(b, dict)) or set(a) != set(b):
            return z3.BoolVal(False)
        return z3.And([O.same(a[k], b[k]) for k in a])
    if isinstance(a, Exception) or isinstance(b, Exception):
        return z3.BoolVal(isinstance(a, Exception) and isinstance(b, Exception) and type(a) is type(b))
    return O.same(a, b)


def run_job(job, deadline):
    import fairlearn.metrics as fm

    acc = JobAcc(job)
    ks, groups, fam = job["ks"], job["groups"], job["family"]
    n = len(ks)
    NAMED[0] = bool(sum(job["id"].encode()) % 2)
    # per-decision solver cap: 5 s for the heavy symbolic-weight jobs (an undecided branch is reported as unexplored, never as success)
    core.DECIDE_TIMEOUT_MS = 5000 if (job["mode"] == "scale-w" and fam != "base" and n >= 3) else _DEFAULT_DECIDE_MS
    sf = ["g%d" % g for g in groups]
    rep = [i for i in range(n) for _ in range(ks[i])]
    calls = _calls(fam, fm, sf)

    def safe(f, *a):
        try:
            return f(*a)
        except Exception as e:
            return e

    def run():
        yt = [integer(f"yt{i}", 0, 1) for i in range(n)]
        yp = [integer(f"yp{i}", 0, 1) for i in range(n)]
        mode = job["mode"]
        if mode == "scale-w":
            w = [real(f"w{i}", 0, None, lo_strict=True) for i in range(n)]
            cs = [core.const(2), core.SReal(z3.RealVal("1/3"))]
        elif mode == "scale-c":
            w = [core.const(v) for v in job["cw"]]
            cs = [real("c", 0, None, lo_strict=True)]
        res = {}
        mpf = lambda p, wt: fm.mean_prediction([0] * len(p), np.array(p, dtype=object), **({} if wt is None else {"sample_weight": wt}))
        pr = [real(f"pr{i}") for i in range(n)] if fam == "base" else None
        for name, f in calls + ([("mean_prediction", None)] if fam == "base" else []):
            g = f if f is not None else (lambda yt_, yp_, wt, sf_: mpf([pr[i] for i in (rep if len(yp_) != n else range(n))], wt))
            if mode == "mult":
                res[name] = {"k": safe(g, yt, yp, [core.const(k) for k in ks], sf), "rep": safe(g, [yt[i] for i in rep], [yp[i] for i in rep], None, [sf[i] for i in rep]),
                             "ones": safe(g, yt, yp, [core.const(1)] * n, sf), "none": safe(g, yt, yp, None, sf)}
            else:
                res[name] = {"w": safe(g, yt, yp, w, sf), "cw": [safe(g, yt, yp, [c * x for x in w], sf) for c in cs]}
        return res, None

    def on_ok(ctx, out):
        res, mp = out
        acc.reach(ctx)
        items = []
        allres = dict(res)
        if mp is not None:
            allres["mean_prediction"] = mp
        for name, r in allres.items():
            if "k" in r:
                items.append(("integer_weight_equals_row_repetition", _same_res(r["k"], r["rep"]), f"multiplicity:{name}"))
                items.append(("unit_weights_equal_no_weights", _same_res(r["ones"], r["none"]), f"unit:{name}"))
            else:
                for x in r["cw"]:
                    items.append(("positive_scaling_changes_nothing", _same_res(r["w"], x), f"scaling:{name}"))
        acc.check_all(ctx, items)
        first = next(iter(allres.values()))
        probe = first.get("k", first.get("w"))
        if core.is_sym(probe):
            acc.canary(ctx, "canary_c11", O.same(probe, term(probe) + 1))
        else:
            acc.r["canaries"] += 1
            acc.r["canaries_fired"] += 1
        acc.sample({"job": job["id"], "example": str(probe)[:200]})

    acc.explore(run, on_ok, deadline=deadline, max_paths=3000)
    return acc.result()


def replay(cex):
    import fairlearn.metrics as fm
    import math

    job, mdl = cex["job"], cex["model"]
    ks, groups, fam = job["ks"], job["groups"], job["family"]
    NAMED[0] = bool(sum(job["id"].encode()) % 2)
    n = len(ks)
    sf = ["g%d" % g for g in groups]
    rep = [i for i in range(n) for _ in range(ks[i])]
    yt = [int(F(mdl.get(f"yt{i}", "0"))) for i in range(n)]
    yp = [int(F(mdl.get(f"yp{i}", "0"))) for i in range(n)]
    w = [float(F(mdl.get(f"w{i}", "1"))) for i in range(n)]
    c = float(F(mdl.get("c", "2")))
    pr = [float(F(mdl.get(f"pr{i}", "0"))) for i in range(n)]
    bad = []

    def val(f, *a):
        try:
            r = f(*a)
            return {k: float(v) for k, v in r.items()} if isinstance(r, dict) else float(r)
        except Exception as e:
            return f"{type(e).__name__}"

    def same(a, b):
        if isinstance(a, dict) and isinstance(b, dict):
            return set(a) == set(b) and all(same(a[k], b[k]) for k in a)
        if isinstance(a, str) or isinstance(b, str):
            return a == b
        return (math.isnan(a) and math.isnan(b)) or abs(a - b) <= 1e-9 * max(1, abs(a))

    calls = _calls(fam, fm, sf)
    if fam == "base":
        calls = calls + [("mean_prediction", lambda yt_, yp_, wt, sf_: fm.mean_prediction([0] * len(yp_), [pr[i] for i in (rep if len(yp_) != n else range(n))], **({} if wt is None else {"sample_weight": wt})))]
    with np.errstate(all="ignore"):
        for name, f in calls:
            k_ = val(f, yt, yp, [float(k) for k in ks], sf)
            rep_ = val(f, [yt[i] for i in rep], [yp[i] for i in rep], None, [sf[i] for i in rep])
            if not same(k_, rep_):
                bad.append(f"{name}: weights {ks} -> {k_}, repeated rows -> {rep_}")
            w_, cw_ = val(f, yt, yp, w, sf), val(f, yt, yp, [c * x for x in w], sf)
            if not same(w_, cw_):
                bad.append(f"{name}: weights {w} -> {w_}, scaled by {c} -> {cw_}")
            o_, n_ = val(f, yt, yp, [1.0] * n, sf), val(f, yt, yp, None, sf)
            if not same(o_, n_):
                bad.append(f"{name}: unit weights -> {o_}, no weights -> {n_}")
    return {"reproduced": bool(bad), "detail": "; ".join(bad)[:700] + f" | y_true={yt} y_pred={yp} groups={groups}"}
