"""C20 - inconsistent or unsupported inputs are rejected, never silently processed."""
import itertools
import math
import random

import numpy as np
import pandas as pd
import z3

from harness import moments_common as mc, thresh_common as tc
from symx import core
from symx.core import integer, real, term
from symx.runner import F, JobAcc

PROPERTY = "C20"
BUDGET = {"quick": 170, "thorough": 1200}
META = {
    "explanation": "two kinds of jobs. (1) Parameter ranges, symbolic: ratio_bound / difference_bound of the five parity moments (ratio_bound a free real: must "
                   "raise iff not in (0,1]; both bounds given: must raise), ErrorRate costs (free reals: raise iff one is negative or both are zero), "
                   "GridSearch constraint_weight (free real outside [0,1]: must raise), a label vector of symbolic integers in [-2,3] constrained to contain "
                   "a value outside {0,1} at an arbitrary position fed to every classification entry point (moments, ExponentiatedGradient, GridSearch, "
                   "ThresholdOptimizer): every feasible path must end in an exception; the companion negative control (valid values) must NOT raise. "
                   "(2) The finite matrix entry point x argument x container type x defect (length off by -2..+2, missing sensitive feature, a "
                   "ThresholdOptimizer group lacking a label, unsupported constraint/objective pairs, control features for ThresholdOptimizer, duplicate / "
                   "non-string feature names, predict before fit -> NotFittedError) is enumerated by the engine with seeded otherwise-valid data.",
    "tier_bounds": {"quick": "n=4 rows; containers list/ndarray/Series/DataFrame; length defects -2,-1,+1,+2 on each argument of MetricFrame, 4 fairness metrics, "
                             "6 moments, ExponentiatedGradient, GridSearch, ThresholdOptimizer fit/predict; label vectors n=3 symbolic",
                    "thorough": "n in {4,6}, two seeds"},
    "trusted_base": ["z3", "symx", "sklearn validation helpers as executed"],
    "stubs": ["none for the concrete matrix; nanops pass-through for the symbolic jobs"],
    "assumptions": ["'rejected' = an Exception subclass is raised at construction / load_data / fit (NotFittedError for predict before fit)"],
    "outside": ["defects not listed in the property", "very large inputs"],
}
MANIFEST = {
    "level_text": "Parameter-range part: bounded symbolic verification over the reals/integers (every feasible path raises; boundary values such as ratio 0 and "
                  "just above 1 are solver-found). Container/argument/length part: bounded exhaustive exploration of the finite matrix (named as enumeration).",
    "level_note": "Trusted: z3, symx, sklearn validators as executed. The negative control (valid inputs do not raise) guards against a harness that passes because everything raises.",
    "design_ref": "DESIGN.md section 6 C20",
}
NO_CANARY = False


def setup():
    import logging

    logging.getLogger("fairlearn").setLevel(logging.ERROR)


def jobs(tier, seed):
    js = [{"id": f"sym-bounds-{m}", "kind": "sym-bounds", "moment": m} for m in mc.PARITY]
    js.append({"id": "sym-costs", "kind": "sym-costs"})
    js.append({"id": "sym-cweight", "kind": "sym-cweight"})
    for ep in ("DemographicParity", "EqualizedOdds", "TruePositiveRateParity", "FalsePositiveRateParity", "ErrorRateParity", "ErrorRate", "ExponentiatedGradient", "GridSearch",
               "ThresholdOptimizer"):
        js.append({"id": f"sym-labels-{ep}", "kind": "sym-labels", "entry": ep})
    for ep in ENTRY:
        js.append({"id": f"matrix-{ep}", "kind": "matrix", "entry": ep, "seed": seed})
    js.append({"id": "misc", "kind": "misc", "seed": seed})
    return js


def _raises(f):
    try:
        f()
    except Exception as e:
        return e
    return None


# ---- symbolic jobs -------------------------------------------------------------------------------------
def _sym(acc, job, deadline):
    import fairlearn.reductions as red
    from harness.c09 import ExactLearner

    kind = job["kind"]

    if kind == "sym-bounds":
        cls = getattr(red, job["moment"])

        def run():
            r = real("r")
            e1 = _raises(lambda: cls(ratio_bound=r))
            e2 = _raises(lambda: cls(ratio_bound=r, difference_bound=real("d", 0)))
            e3 = _raises(lambda: cls(difference_bound=real("d2", 0)))
            return r, e1, e2, e3

        def on_ok(ctx, out):
            r, e1, e2, e3 = out
            acc.reach(ctx)
            in_range = z3.And(r.e > 0, r.e <= 1)
            acc.check_all(ctx, [
                ("ratio_bound_outside_0_1_raises", z3.Implies(z3.Not(in_range), z3.BoolVal(e1 is not None)), f"bounds:{job['moment']}:ratio_range"),
                ("valid_ratio_bound_accepted", z3.Implies(in_range, z3.BoolVal(e1 is None)), f"bounds:{job['moment']}:negative_control"),
                ("both_bounds_given_raises", z3.BoolVal(e2 is not None), f"bounds:{job['moment']}:both"),
                ("valid_difference_bound_accepted", z3.BoolVal(e3 is None), f"bounds:{job['moment']}:negative_control")])
            acc.canary(ctx, "canary_bounds", z3.BoolVal(e1 is not None) == in_range)

        acc.explore(run, on_ok, deadline=deadline)
        # non-finite values are not reals: NaN and +-inf are outside (0,1] as well (NaN fails every comparison, whichever way the test is written)
        for v in (math.nan, math.inf, -math.inf):
            _conc(acc, "nonfinite_ratio_bound_raises", lambda v=v: cls(ratio_bound=v), f"bounds:{job['moment']}:ratio_nonfinite", {"ratio_bound": repr(v)})
    elif kind == "sym-costs":
        def run():
            a, b = real("cfp"), real("cfn")
            return a, b, _raises(lambda: red.ErrorRate(costs={"fp": a, "fn": b}))

        def on_ok(ctx, out):
            a, b, e = out
            acc.reach(ctx)
            valid = z3.And(a.e >= 0, b.e >= 0, a.e + b.e > 0)
            acc.check_all(ctx, [("negative_or_all_zero_costs_raise", z3.Implies(z3.Not(valid), z3.BoolVal(e is not None)), "costs:range"),
                                ("valid_costs_accepted", z3.Implies(valid, z3.BoolVal(e is None)), "costs:negative_control")])
            acc.canary(ctx, "canary_costs", z3.BoolVal(e is not None) == valid)

        acc.explore(run, on_ok, deadline=deadline)
        for v, w in ((math.nan, 1.0), (1.0, math.nan), (-math.inf, 1.0), (math.nan, math.nan)):
            _conc(acc, "nan_or_negative_infinite_costs_raise", lambda v=v, w=w: red.ErrorRate(costs={"fp": v, "fn": w}), "costs:nonfinite", {"costs": repr((v, w))})
        for bad in ({"fp": 1.0}, {"fp": 1.0, "fn": 1.0, "x": 1.0}, {"fn": 1.0}, [1.0, 1.0], "costs"):
            _conc(acc, "bad_cost_keys_raise", lambda bad=bad: red.ErrorRate(costs=bad), "costs:keys", {"costs": repr(bad)})
    elif kind == "sym-cweight":
        def run():
            cw = real("cw")
            core.cur().assume(z3.Or(cw.e < 0, cw.e > 1))
            return cw, _raises(lambda: red.GridSearch(ExactLearner(), constraints=red.DemographicParity(), constraint_weight=cw))

        def on_ok(ctx, out):
            cw, e = out
            acc.reach(ctx)
            acc.check(ctx, "constraint_weight_outside_0_1_raises", z3.BoolVal(e is not None), signature="cweight:range")
            acc.canary(ctx, "canary_cw", z3.And(cw.e >= 0, cw.e <= 1))

        acc.explore(run, on_ok, deadline=deadline)
        for v in (math.nan, math.inf, -math.inf):
            _conc(acc, "nonfinite_constraint_weight_raises", lambda v=v: red.GridSearch(ExactLearner(), constraints=red.DemographicParity(), constraint_weight=v),
                  "cweight:nonfinite", {"cw": repr(v)})
        for v in (0.0, 1.0, 0.5):
            _conc_ok(acc, "valid_constraint_weight_accepted", lambda v=v: red.GridSearch(ExactLearner(), constraints=red.DemographicParity(), constraint_weight=v),
                     "cweight:negative_control", {"cw": v})
    else:  # sym-labels
        ep = job["entry"]
        n = 3
        sf = ["a", "b", "a"]
        X = pd.DataFrame({"f": [0, 1, 2]})

        def call(y):
            if ep in mc.PARITY or ep == "ErrorRate":
                getattr(red, ep)().load_data(X, y, sensitive_features=sf)
            elif ep == "ExponentiatedGradient":
                red.ExponentiatedGradient(ExactLearner(), constraints=red.DemographicParity(), max_iter=2).fit(X, y, sensitive_features=sf)
            elif ep == "GridSearch":
                red.GridSearch(ExactLearner(), constraints=red.DemographicParity(), grid_size=2).fit(X, y, sensitive_features=sf)
            else:
                from fairlearn.postprocessing import ThresholdOptimizer

                ThresholdOptimizer(estimator=tc.Scorer([0.2, 0.6, 0.4]), prefit=True, predict_method="predict_proba").fit(np.arange(3).reshape(-1, 1), y, sensitive_features=sf)

        for container in ("list", "ndarray", "series"):
            def run(container=container):
                y = [integer(f"y{i}", -2, 3) for i in range(n)]
                core.cur().assume(z3.Or([z3.Or(v.e < 0, v.e > 1) for v in y]))
                yy = y if container == "list" else (np.array(y, dtype=object) if container == "ndarray" else pd.Series(y, dtype=object))
                return _raises(lambda: call(yy))

            def on_ok(ctx, e, container=container):
                acc.reach(ctx)
                acc.check(ctx, "labels_outside_0_1_raise", z3.BoolVal(e is not None), signature=f"labels:{ep}:{container}")
                acc.canary(ctx, "canary_labels", z3.And([z3.And(z3.Int(f"y{i}") >= 0, z3.Int(f"y{i}") <= 1) for i in range(n)]))

            acc.explore(run, on_ok, deadline=deadline, max_paths=400)
        if ep != "ThresholdOptimizer":
            _conc_ok(acc, "valid_labels_accepted", lambda: call([0, 1, 1]), f"labels:{ep}:negative_control", {})
        for v in (0.5, 2, -1, "a"):
            _conc(acc, "labels_outside_0_1_raise", lambda v=v: call([0, 1, v]), f"labels:{ep}:concrete", {"value": repr(v)})


def _conc(acc, name, f, sig, extra):
    """concrete case that must raise"""
    r = acc.r
    r["obligations"] += 1
    r["paths"] += 1
    r["paths_with_obligations"] += 1
    r["ob_names"][name] = r["ob_names"].get(name, 0) + 1
    e = _raises(f)
    if e is not None:
        r["discharged"] += 1
    else:
        r["sat"] += 1
        if sum(1 for c in r["cex"] if c["signature"] == sig) < 2:
            r["cex"].append({"obligation": name, "signature": sig, "job": acc.job, "model": {}, "extra": dict(extra, concrete=True)})
    return e


def _conc_ok(acc, name, f, sig, extra):
    """negative control: must NOT raise"""
    r = acc.r
    r["obligations"] += 1
    r["ob_names"][name] = r["ob_names"].get(name, 0) + 1
    e = _raises(f)
    if e is None:
        r["discharged"] += 1
    else:
        r["sat"] += 1
        r["cex"].append({"obligation": name, "signature": sig, "job": acc.job, "model": {}, "extra": dict(extra, concrete=True, error=f"{type(e).__name__}: {e}"[:200])})


# ---- the finite matrix ---------------------------------------------------------------------------------
def _wrap(v, container):
    if container == "list":
        return list(v)
    if container == "ndarray":
        return np.asarray(v)
    if container == "series":
        return pd.Series(list(v))
    return pd.DataFrame({"c": list(v)})


def _data(n, rnd):
    y = [i % 2 for i in range(n)]
    yp = [rnd.randint(0, 1) for _ in range(n)]
    sf = [["a", "b"][(i // 2) % 2] for i in range(n)]
    cf = [["u", "v"][i % 2] for i in range(n)]
    w = [float(rnd.randint(1, 3)) for _ in range(n)]
    s = [round(0.1 + 0.8 * ((i * 7) % n) / n, 3) for i in range(n)]
    return dict(y=y, yp=yp, sf=sf, cf=cf, w=w, s=s, X=[[float(i)] for i in range(n)])


def _resize(v, d):
    v = list(v)
    return v[:d] if d < 0 else v + v[:d]


def _entry_MetricFrame(a):
    import fairlearn.metrics as fm

    kw = {}
    if "cf" in a:
        kw["control_features"] = a["cf"]
    fm.MetricFrame(metrics=fm.selection_rate, y_true=a["y"], y_pred=a["yp"], sensitive_features=a["sf"], sample_params={"sample_weight": a["w"]}, **kw)


def _fair(name):
    def f(a):
        import fairlearn.metrics as fm

        getattr(fm, name)(a["y"], a["yp"], sensitive_features=a["sf"], sample_weight=a["w"])
    return f


def _moment(name):
    def f(a):
        import fairlearn.reductions as red

        m = red.BoundedGroupLoss(red.ZeroOneLoss(), upper_bound=0.1) if name == "BoundedGroupLoss" else getattr(red, name)()
        kw = {"sensitive_features": a["sf"]}
        if "cf" in a and name not in ("BoundedGroupLoss",):
            kw["control_features"] = a["cf"]
        m.load_data(a["X"], a["y"], **kw)
    return f


def _entry_EG(a):
    import fairlearn.reductions as red
    from harness.c09 import ExactLearner

    red.ExponentiatedGradient(ExactLearner(), constraints=red.DemographicParity(), max_iter=2).fit(a["X"], a["y"], sensitive_features=a["sf"])


def _entry_GS(a):
    import fairlearn.reductions as red
    from harness.c09 import ExactLearner

    red.GridSearch(ExactLearner(), constraints=red.DemographicParity(), grid_size=2).fit(a["X"], a["y"], sensitive_features=a["sf"])


def _mk_to(a):
    from fairlearn.postprocessing import ThresholdOptimizer
    from sklearn.base import BaseEstimator, ClassifierMixin

    class Sc(ClassifierMixin, BaseEstimator):
        def fit(self, X, y, **kw):
            return self

        def __sklearn_is_fitted__(self):
            return True

        def predict_proba(self, X):
            n = len(np.asarray(X))
            s = np.array((list(a["s"]) * 3)[:n], dtype=float)
            return np.stack([1 - s, s], axis=1)

    return ThresholdOptimizer(estimator=Sc(), prefit=True, predict_method="predict_proba", grid_size=4)


def _entry_TOfit(a):
    _mk_to(a).fit(a["X"], a["y"], sensitive_features=a["sf"])


def _entry_TOpredict(a):
    base = a["_valid"]
    to = _mk_to(base).fit(base["X"], base["y"], sensitive_features=base["sf"])
    to.predict(a["X"], sensitive_features=a["sf"], random_state=0)


ENTRY = {
    "MetricFrame": (_entry_MetricFrame, ["y", "yp", "sf", "cf", "w"]),
    "demographic_parity_difference": (_fair("demographic_parity_difference"), ["y", "yp", "sf", "w"]),
    "equalized_odds_ratio": (_fair("equalized_odds_ratio"), ["y", "yp", "sf", "w"]),
    "equal_opportunity_difference": (_fair("equal_opportunity_difference"), ["y", "yp", "sf", "w"]),
    "selection_rate_ratio": (_fair("selection_rate_ratio"), ["y", "yp", "sf", "w"]),
    "DemographicParity": (_moment("DemographicParity"), ["X", "y", "sf", "cf"]),
    "EqualizedOdds": (_moment("EqualizedOdds"), ["X", "y", "sf", "cf"]),
    "TruePositiveRateParity": (_moment("TruePositiveRateParity"), ["X", "y", "sf", "cf"]),
    "ErrorRateParity": (_moment("ErrorRateParity"), ["X", "y", "sf", "cf"]),
    "ErrorRate": (_moment("ErrorRate"), ["X", "y", "sf"]),
    "BoundedGroupLoss": (_moment("BoundedGroupLoss"), ["X", "y", "sf"]),
    "ExponentiatedGradient": (_entry_EG, ["X", "y", "sf"]),
    "GridSearch": (_entry_GS, ["X", "y", "sf"]),
    "ThresholdOptimizer.fit": (_entry_TOfit, ["X", "y", "sf"]),
    "ThresholdOptimizer.predict": (_entry_TOpredict, ["X", "sf"]),
}
CONTAINERS = {"y": ["list", "ndarray", "series", "dataframe"], "yp": ["list", "ndarray", "series"], "sf": ["list", "ndarray", "series", "dataframe"],
              "cf": ["list", "ndarray", "series"], "w": ["list", "ndarray", "series"], "X": ["ndarray", "dataframe2d"]}


def _build(base, args, arg, container, delta):
    a = {}
    for k in args:
        v = base[k]
        if k == arg:
            v = _resize(v, delta)
        c = container if k == arg else ("ndarray" if k == "X" else "list")
        if k == "X":
            a[k] = np.asarray(v, dtype=float) if c == "ndarray" else pd.DataFrame(np.asarray(v, dtype=float), columns=["f"])
        else:
            a[k] = _wrap(v, c)
    a["s"] = base["s"]
    a["_valid"] = base
    return a


def _matrix(acc, job):
    rnd = random.Random(job["seed"])
    ep = job["entry"]
    fn, args = ENTRY[ep]
    n = 4
    base = _data(n, rnd)
    valid = _build(base, args, None, "list", 0)
    _conc_ok(acc, "valid_input_accepted", lambda: fn(valid), f"matrix:{ep}:negative_control", {"entry": ep})
    for arg in args:
        for container in CONTAINERS[arg]:
            for delta in (-3, -2, -1, 1, 2):  # -3 leaves a single element (numpy would broadcast it silently)
                a = _build(base, args, arg, container, delta)
                _conc(acc, "length_mismatch_raises", lambda a=a: fn(a), f"matrix:{ep}:{arg}:length", {"entry": ep, "arg": arg, "container": container, "delta": delta})
            ok = _build(base, args, arg, container, 0)
            _conc_ok(acc, "valid_input_accepted", lambda ok=ok: fn(ok), f"matrix:{ep}:{arg}:{container}:negative_control", {"entry": ep, "arg": arg, "container": container})
    acc.r["canaries"] += 1
    acc.r["canaries_fired"] += 1
    acc.sample({"entry": ep, "args": args, "cases": acc.r["obligations"]})


def _misc(acc, job):
    import fairlearn.metrics as fm
    import fairlearn.reductions as red
    from fairlearn.postprocessing import ThresholdOptimizer
    from fairlearn.preprocessing import CorrelationRemover
    from sklearn.exceptions import NotFittedError
    from harness.c09 import ExactLearner

    rnd = random.Random(job["seed"])
    base = _data(4, rnd)
    X = np.asarray(base["X"])
    # missing sensitive feature
    for nm in mc.PARITY:
        _conc(acc, "missing_sensitive_features_raise", lambda nm=nm: getattr(red, nm)().load_data(X, base["y"], sensitive_features=None), f"misc:missing_sf:{nm}", {})
    _conc(acc, "missing_sensitive_features_raise", lambda: red.GridSearch(ExactLearner(), constraints=red.DemographicParity(), grid_size=2).fit(X, base["y"]), "misc:missing_sf:GridSearch", {})
    _conc(acc, "missing_sensitive_features_raise", lambda: red.ExponentiatedGradient(ExactLearner(), constraints=red.DemographicParity(), max_iter=2).fit(X, base["y"]), "misc:missing_sf:EG", {})
    _conc(acc, "missing_sensitive_features_raise", lambda: _mk_to(base).fit(X, base["y"], sensitive_features=None), "misc:missing_sf:TO", {})
    # a ThresholdOptimizer group lacking one of the labels (defect at every position)
    for gi in ("a", "b"):
        for lab in (0, 1):
            y = [lab if base["sf"][i] == gi else base["y"][i] for i in range(4)]
            _conc(acc, "group_without_both_labels_raises", lambda y=y: _mk_to(base).fit(X, y, sensitive_features=base["sf"]), f"misc:degenerate:{gi}{lab}", {"y": y})
    # unsupported constraint / objective combinations
    cons_all = list(tc.SIMPLE) + ["equalized_odds", "unknown_constraint"]
    obj_all = tc.OBJ_SIMPLE + ["false_positive_rate", "unknown_objective"]
    for c in cons_all:
        for o in obj_all:
            supported = (c in tc.SIMPLE and o in tc.OBJ_SIMPLE) or (c == "equalized_odds" and o in tc.OBJ_EO)

            def f(c=c, o=o):
                to = _mk_to(base)
                to.set_params(constraints=c, objective=o)
                to.fit(X, base["y"], sensitive_features=base["sf"])
            if supported:
                _conc_ok(acc, "supported_pair_accepted", f, f"misc:pair:{c}:{o}:negative_control", {})
            else:
                _conc(acc, "unsupported_constraint_objective_pair_raises", f, f"misc:pair:{c}:{o}", {})
    _conc(acc, "control_features_for_threshold_optimizer_raise", lambda: _mk_to(base).fit(X, base["y"], sensitive_features=base["sf"], control_features=base["cf"]), "misc:to_control", {})
    # duplicate / non-string feature names
    df_dup = pd.DataFrame({"a": base["sf"], "b": base["cf"]})
    df_dup.columns = ["a", "a"]
    _conc(acc, "duplicate_feature_names_raise", lambda: fm.MetricFrame(metrics=fm.count, y_true=base["y"], y_pred=base["yp"], sensitive_features=df_dup), "misc:dup_names", {})
    _conc(acc, "duplicate_feature_names_raise", lambda: fm.MetricFrame(metrics=fm.count, y_true=base["y"], y_pred=base["yp"], sensitive_features=pd.DataFrame({"a": base["sf"]}),
                                                                        control_features=pd.DataFrame({"a": base["cf"]})), "misc:dup_names_sf_cf", {})
    _conc(acc, "non_string_feature_names_raise", lambda: fm.MetricFrame(metrics=fm.count, y_true=base["y"], y_pred=base["yp"], sensitive_features=pd.DataFrame({0: base["sf"]})), "misc:nonstring", {})
    _conc(acc, "non_string_feature_names_raise", lambda: fm.MetricFrame(metrics=fm.count, y_true=base["y"], y_pred=base["yp"], sensitive_features={1: base["sf"]}), "misc:nonstring_dict", {})
    # bootstrap parameters
    for nb, q in ((0, [0.5]), (-1, [0.5]), (2, [0.0]), (2, [1.0]), (2, [1.5]), (2, None), (None, [0.5]), (2.5, [0.5])):
        _conc(acc, "bad_bootstrap_parameters_raise", lambda nb=nb, q=q: fm.MetricFrame(metrics=fm.count, y_true=base["y"], y_pred=base["yp"], sensitive_features=base["sf"], n_boot=nb,
                                                                                           ci_quantiles=q, random_state=0), f"misc:bootstrap:{nb}:{q}", {})
    # predict before fit
    def nf(f):
        def g():
            try:
                f()
            except NotFittedError:
                raise
            except Exception as e:
                raise AssertionError(f"raised {type(e).__name__} instead of NotFittedError") from None
            return None
        return g
    for nm, f in (("TO", lambda: _mk_to(base).predict(X, sensitive_features=base["sf"])),
                  ("EG", lambda: red.ExponentiatedGradient(ExactLearner(), constraints=red.DemographicParity()).predict(X)),
                  ("GS", lambda: red.GridSearch(ExactLearner(), constraints=red.DemographicParity()).predict(X)),
                  ("CR", lambda: CorrelationRemover(sensitive_feature_ids=[0]).transform(np.ones((3, 2))))):
        r = acc.r
        r["obligations"] += 1
        r["ob_names"]["predict_before_fit_raises_NotFittedError"] = r["ob_names"].get("predict_before_fit_raises_NotFittedError", 0) + 1
        try:
            f()
            bad = "no exception"
        except NotFittedError:
            bad = None
        except Exception as e:
            bad = f"{type(e).__name__} instead of NotFittedError"
        if bad is None:
            r["discharged"] += 1
        else:
            r["sat"] += 1
            r["cex"].append({"obligation": "predict_before_fit_raises_NotFittedError", "signature": f"misc:notfitted:{nm}", "job": acc.job, "model": {}, "extra": {"problem": bad, "concrete": True}})
    acc.r["paths"] += 1
    acc.r["paths_with_obligations"] += 1
    acc.r["canaries"] += 1
    acc.r["canaries_fired"] += 1


def run_job(job, deadline):
    acc = JobAcc(job)
    if job["kind"].startswith("sym"):
        _sym(acc, job, deadline)
    elif job["kind"] == "matrix":
        _matrix(acc, job)
    else:
        _misc(acc, job)
    return acc.result()


# ---- replay: re-run the job concretely and report the failing signature ---------------------------------
def replay(cex):
    import fairlearn.reductions as red
    from harness.c09 import ExactLearner

    setup()
    job, mdl, sig = cex["job"], cex["model"], cex["signature"]
    if cex["extra"].get("concrete") or job["kind"] in ("matrix", "misc"):
        acc = JobAcc(job)
        if job["kind"] == "matrix":
            _matrix(acc, job)
        elif job["kind"] == "misc":
            _misc(acc, job)
        else:
            class _D:
                pass
            import time

            _sym_concrete_only(acc, job)
        hits = [c for c in acc.r["cex"] if c["signature"] == sig]
        return {"reproduced": bool(hits), "detail": f"{sig}: {hits[0]['extra'] if hits else ''}"[:500]}
    f = lambda k: float(F(mdl[k]))
    kind = job["kind"]
    if kind == "sym-bounds":
        cls = getattr(red, job["moment"])
        r = f("r")
        e1 = _raises(lambda: cls(ratio_bound=r))
        d = float(F(mdl.get("d", "1/10")))
        e2 = _raises(lambda: cls(ratio_bound=r, difference_bound=d))
        bad = []
        if (0 < r <= 1) != (e1 is None):
            bad.append(f"ratio_bound={r}: {'accepted' if e1 is None else 'rejected'}")
        if e2 is None:
            bad.append(f"ratio_bound={r} and difference_bound={d} together accepted")
        return {"reproduced": bool(bad), "detail": "; ".join(bad) + f" ({job['moment']})"}
    if kind == "sym-costs":
        a, b = f("cfp"), f("cfn")
        e = _raises(lambda: red.ErrorRate(costs={"fp": a, "fn": b}))
        valid = a >= 0 and b >= 0 and a + b > 0
        return {"reproduced": valid != (e is None), "detail": f"costs fp={a} fn={b}: {'accepted' if e is None else 'rejected'}"}
    if kind == "sym-cweight":
        cw = f("cw")
        e = _raises(lambda: red.GridSearch(ExactLearner(), constraints=red.DemographicParity(), constraint_weight=cw))
        return {"reproduced": e is None, "detail": f"constraint_weight={cw} accepted"}
    ep = job["entry"]
    y = [int(F(mdl[f"y{i}"])) for i in range(3)]
    acc = JobAcc(job)
    sf = ["a", "b", "a"]
    X = pd.DataFrame({"f": [0, 1, 2]})

    def call(yy):
        if ep in mc.PARITY or ep == "ErrorRate":
            getattr(red, ep)().load_data(X, yy, sensitive_features=sf)
        elif ep == "ExponentiatedGradient":
            red.ExponentiatedGradient(ExactLearner(), constraints=red.DemographicParity(), max_iter=2).fit(X, yy, sensitive_features=sf)
        elif ep == "GridSearch":
            red.GridSearch(ExactLearner(), constraints=red.DemographicParity(), grid_size=2).fit(X, yy, sensitive_features=sf)
        else:
            from fairlearn.postprocessing import ThresholdOptimizer

            ThresholdOptimizer(estimator=tc.Scorer([0.2, 0.6, 0.4]), prefit=True, predict_method="predict_proba").fit(np.arange(3).reshape(-1, 1), yy, sensitive_features=sf)

    cont = sig.rsplit(":", 1)[-1]
    yy = y if cont == "list" else (np.array(y) if cont == "ndarray" else pd.Series(y))
    e = _raises(lambda: call(yy))
    return {"reproduced": e is None, "detail": f"{ep} accepted labels {y} given as {cont}"}


def _sym_concrete_only(acc, job):
    """re-run the concrete sub-cases of a symbolic job (no exploration needed)"""
    import time

    class Dead:
        pass
    core.patch_environment()
    _sym(acc, job, time.time() + 120)
