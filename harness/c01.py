"""C01 - MetricFrame disaggregation is exact: each cell is the metric on exactly that subgroup's rows."""
import itertools
import math

import numpy as np
import pandas as pd
import z3

from symx import core
from symx.core import SOpaque, real, rgs, term
from symx.runner import F, JobAcc

PROPERTY = "C01"
BUDGET = {"quick": 170, "thorough": 1700}
META = {
    "explanation": "bounded symbolic execution of the real MetricFrame constructor / DisaggregatedResult.create / AnnotatedMetricFunction on rows "
                   "(t_i,p_i,s_i) of free reals with an UNINTERPRETED metric: the metric callable returns sum over the rows it receives of G(t,p,s) "
                   "(G an uninterpreted z3 function; a second metric H(t,p) without per-sample parameter rides along in the dict form). A cell equals "
                   "the oracle sum for every interpretation of G iff the callable saw exactly that subgroup's rows with the parameter sliced the same "
                   "way. z3 decides cell == oracle, overall == oracle; index/NaN structure is compared structurally. Group layouts (which row carries "
                   "which level) are structural and enumerated canonically (restricted-growth strings).",
    "tier_bounds": {
        "quick": "n<=4 rows; layouts: 1 sensitive (<=3 levels), 2 sensitive (<=2 levels each), 1 sensitive+1 control, 2 sensitive+1 control (<=2 levels), "
                 "3 sensitive (n<=3), 1 sensitive+2 control (n<=3); metrics bare callable and dict form; all canonical level assignments; in every other "
                 "structure the frame under test is the SECOND frame built from the same argument objects (metrics / sample_params dicts, feature objects)",
        "thorough": "n<=5 for the first four layouts (<=3 levels for single columns), n<=4 for 3 sensitive and for 2 control; label kinds str and int",
    },
    "trusted_base": ["z3 (EUF+LRA)", "symx proxies", "pandas groupby/reindex as executed on object columns"],
    "stubs": ["pandas.core.nanops._ensure_numeric pass-through for proxies"],
    "assumptions": ["metric callables are order-insensitive scalar functions of the rows they receive (sum of an uninterpreted per-row function)"],
    "outside": ["order-sensitive or vector-valued metrics", "n beyond the bound", "more than 3 levels per column"],
}
MANIFEST = {
    "level_text": "Bounded symbolic verification with an uninterpreted metric: for every canonical assignment of <=4/5 rows to feature levels and every "
                  "listed layout, z3 proves each by_group cell and overall equal the sum of G over exactly the matching rows, for ALL row values and ALL "
                  "interpretations of G, and the index / NaN structure is checked structurally. This quantifies over metric programs, which no test can.",
    "level_note": "Trusted: z3, symx, pandas object-dtype groupby as executed. Metric class restricted to order-insensitive per-row sums (documented). Layouts are enumerated, row values are solver-quantified.",
    "design_ref": "DESIGN.md section 6 C01",
}

G = z3.Function("G", z3.RealSort(), z3.RealSort(), z3.RealSort(), z3.RealSort())
H = z3.Function("H", z3.RealSort(), z3.RealSort(), z3.RealSort())


def metric_g(y_true, y_pred, s=None):
    tot = None
    for a, b, c in zip(list(y_true), list(y_pred), list(s)):
        v = G(term(a), term(b), term(c))
        tot = v if tot is None else tot + v
    return SOpaque(tot if tot is not None else z3.RealVal(0))


def metric_h(y_true, y_pred):
    tot = None
    for a, b in zip(list(y_true), list(y_pred)):
        v = H(term(a), term(b))
        tot = v if tot is None else tot + v
    return SOpaque(tot if tot is not None else z3.RealVal(0))


def metric_count(y_true, y_pred):
    return len(y_true)


def metric_count2(y_true, y_pred):
    return int(2 * len(y_pred))


def setup():
    pass


LAYOUTS_Q = [  # (name, n_sf, n_cf, maxlev, nmax)
    ("1sf", 1, 0, 3, 4), ("2sf", 2, 0, 2, 4), ("1sf1cf", 1, 1, 2, 4), ("2sf1cf", 2, 1, 2, 4), ("3sf", 3, 0, 2, 3), ("1sf2cf", 1, 2, 2, 3),
]
LAYOUTS_T = [
    ("1sf", 1, 0, 3, 5), ("2sf", 2, 0, 3, 5), ("1sf1cf", 1, 1, 3, 5), ("2sf1cf", 2, 1, 2, 5), ("3sf", 3, 0, 2, 4), ("1sf2cf", 1, 2, 2, 4), ("2sf2cf", 2, 2, 2, 4),
]


def jobs(tier, seed):
    js = []
    for (name, nsf, ncf, maxlev, nmax) in (LAYOUTS_Q if tier == "quick" else LAYOUTS_T):
        for n in range(1, nmax + 1):
            cols = nsf + ncf
            structs = list(itertools.product(list(rgs(n, maxlev)), repeat=cols))
            chunk = 40
            for form in ("callable", "dict", "dict2", "intcount"):
                for lab in (("str",) if tier == "quick" else ("str", "int")):
                    for ci in range(0, len(structs), chunk):
                        js.append({"id": f"{name}-n{n}-{form}-{lab}-{ci // chunk}", "layout": name, "nsf": nsf, "ncf": ncf, "n": n, "form": form,
                                   "labels": lab, "structs": [list(map(list, s)) for s in structs[ci:ci + chunk]]})
    return js


def _labels(kind, col, lev):
    if kind == "str":
        return "abc"[lev] + str(col)
    return 10 * (col + 1) + (2 - lev)  # ints, deliberately decreasing so sorted order != level order


def _cells(obj, names, series_is_metrics=False):
    """normalise by_group/overall (scalar, Series, DataFrame) to {metric: {index_tuple: value}}"""
    out = {}
    if series_is_metrics and isinstance(obj, pd.Series):  # dict metrics, no control features: overall is indexed by metric name
        for m in obj.index:
            out[m] = {(): obj.loc[m]}
    elif isinstance(obj, pd.DataFrame):
        for m in obj.columns:
            out[m] = {(ix if isinstance(ix, tuple) else (ix,)): obj[m].loc[ix] for ix in obj.index}
    elif isinstance(obj, pd.Series):
        out[names[0]] = {(ix if isinstance(ix, tuple) else (ix,)): obj.loc[ix] for ix in obj.index}
    else:
        out[names[0]] = {(): obj}
    return out


def _intcount_problems(out, gcols, uniq, cf_cols, n, ncf):
    _, bgc, ovc, bgd, ovd = out
    problems = []
    expected_index = set(itertools.product(*uniq))
    for label, bg, names, mult in (("callable", bgc, ["metric_count"], {"metric_count": 1}), ("dict", bgd, ["n", "n2"], {"n": 1, "n2": 2})):
        cells = _cells(bg, names)
        for m in names:
            if m not in cells or set(cells[m].keys()) != expected_index:
                problems.append(f"{label}: index of {m} is not the product of observed values")
                continue
            for combo in expected_index:
                rows = [i for i in range(n) if all(gcols[c][i] == combo[c] for c in range(len(gcols)))]
                v = cells[m][combo]
                if not rows:
                    if not core.is_nan(v) and not (isinstance(v, float) and math.isnan(v)):
                        problems.append(f"{label}: empty combination {combo} of integer metric {m} reported as {v!r}, not NaN")
                elif float(v) != mult[m] * len(rows):
                    problems.append(f"{label}: {m}{combo} = {v!r}, rows {len(rows)}")
    return problems


def run_job(job, deadline):
    from fairlearn.metrics import MetricFrame

    acc = JobAcc(job)
    n, nsf, ncf = job["n"], job["nsf"], job["ncf"]
    for si, struct in enumerate(job["structs"]):
        colvals = [[_labels(job["labels"], c, lev) for lev in col] for c, col in enumerate(struct)]
        sf_cols, cf_cols = colvals[:nsf], colvals[nsf:]

        def run():
            t = [real(f"t{i}") for i in range(n)]
            p = [real(f"p{i}") for i in range(n)]
            s = [real(f"s{i}") for i in range(n)]
            # every third structure hands the features over as pandas objects whose index labels are NOT 0..n-1 in order
            # (rows of a shuffled frame): rows are matched by position, never by label
            idx = list(range(n))[::-1] if si % 3 == 1 else (list(range(7, 7 + n)) if si % 3 == 2 else None)
            if idx is None:
                sf = pd.DataFrame({f"S{j}": sf_cols[j] for j in range(nsf)}) if nsf > 1 else sf_cols[0]
                cf = None if ncf == 0 else (pd.DataFrame({f"C{j}": cf_cols[j] for j in range(ncf)}) if ncf > 1 else np.array(cf_cols[0], dtype=object))
            else:
                sf = pd.DataFrame({f"S{j}": sf_cols[j] for j in range(nsf)}, index=idx) if nsf > 1 else pd.Series(sf_cols[0], index=idx, name="sensitive_feature_0")
                cf = None if ncf == 0 else (pd.DataFrame({f"C{j}": cf_cols[j] for j in range(ncf)}, index=idx) if ncf > 1
                                            else pd.Series(cf_cols[0], index=idx, name="control_feature_0"))
            try:
                # every other structure: the frame under test is the SECOND one built from the very same argument objects (a caller re-using its
                # metrics / sample_params dictionaries and feature objects for another frame); the first one is computed and thrown away
                again = si % 2 == 1
                if job["form"] == "callable":
                    kw = dict(metrics=metric_g, y_true=np.array(t, dtype=object), y_pred=p, sensitive_features=sf, control_features=cf,
                              sample_params={"s": np.array(s, dtype=object)})
                    if again:
                        MetricFrame(**kw).by_group
                    mf = MetricFrame(**kw)
                    names = ["metric_g"]
                elif job["form"] == "intcount":
                    # integer-valued metrics only (row count, bare and in a dict): cells are python/numpy ints, an empty combination is still NaN
                    mfc = MetricFrame(metrics=metric_count, y_true=t, y_pred=p, sensitive_features=sf, control_features=cf)
                    mfd = MetricFrame(metrics={"n": metric_count, "n2": metric_count2}, y_true=t, y_pred=p, sensitive_features=sf, control_features=cf)
                    return ("intcount", mfc.by_group, mfc.overall, mfd.by_group, mfd.overall)
                elif job["form"] == "dict":
                    kw = dict(metrics={"g": metric_g, "h": metric_h}, y_true=t, y_pred=np.array(p, dtype=object), sensitive_features=sf,
                              control_features=cf, sample_params={"g": {"s": s}})
                    if again:
                        MetricFrame(**kw).by_group
                    mf = MetricFrame(**kw)
                    names = ["g", "h"]
                else:
                    # the SAME callable under two names with DIFFERENT per-sample parameters (and a third metric without any)
                    s2 = [real(f"r{i}") for i in range(n)]
                    kw = dict(metrics={"g": metric_g, "g2": metric_g, "h": metric_h}, y_true=t, y_pred=np.array(p, dtype=object), sensitive_features=sf,
                              control_features=cf, sample_params={"g": {"s": s}, "g2": {"s": np.array(s2, dtype=object)}})
                    if again:
                        MetricFrame(**kw).by_group
                    mf = MetricFrame(**kw)
                    names = ["g", "g2", "h"]
                    s = {"g": s, "g2": s2}
                return t, p, s, mf.by_group, mf.overall, names, mf.sensitive_levels, mf.control_levels
            except Exception as e:
                return e

        def on_ok(ctx, out, struct=struct, si=si):
            ex = {"struct": struct, "si": si}
            if isinstance(out, Exception):
                acc.exception_cex(ctx, out, signature=f"exception:{type(out).__name__}:n{'1' if n == 1 else '>1'}", extra=ex)
                return
            if isinstance(out, tuple) and out and isinstance(out[0], str) and out[0] == "intcount":
                acc.reach(ctx)
                gcols = cf_cols + sf_cols
                uniq = [sorted(set(c)) for c in gcols]
                problems = _intcount_problems(out, gcols, uniq, cf_cols, n, ncf)
                acc.check(ctx, "integer_metric_cells_are_row_counts_and_empty_cells_nan", z3.BoolVal(not problems), signature="intcount", extra=dict(ex, problems=problems[:3]))
                acc.canary(ctx, "canary_intcount", z3.BoolVal(False))
                return
            t, p, s, by_group, overall, names, slev, clev = out
            acc.reach(ctx)

            def oracle(name, rows):
                if name in ("metric_g", "g", "g2"):
                    sv = s[name] if isinstance(s, dict) else s
                    return core.zsum([G(term(t[i]), term(p[i]), term(sv[i])) for i in rows])
                return core.zsum([H(term(t[i]), term(p[i])) for i in rows])

            # grouping columns in the order the property states: control features first, then sensitive
            gcols = cf_cols + sf_cols
            uniq = [sorted(set(c)) for c in gcols]
            expected_index = set(itertools.product(*uniq))
            bg = _cells(by_group, names)
            ok_struct = set(bg.keys()) == set(names)
            for m in names:
                if m not in bg:
                    continue
                got_index = set(bg[m].keys())
                ok_struct = ok_struct and got_index == expected_index and len(bg[m]) == len(expected_index)
            acc.check(ctx, "by_group_index_is_product_of_observed_values", z3.BoolVal(bool(ok_struct)), signature="index", extra=ex)
            if not ok_struct:
                return
            eqs, nan_ok = [], True
            for m in names:
                for combo in expected_index:
                    rows = [i for i in range(n) if all(gcols[c][i] == combo[c] for c in range(len(gcols)))]
                    v = bg[m][combo]
                    if not rows:
                        nan_ok = nan_ok and core.is_nan(v)
                    elif core.is_sym(v):
                        eqs.append(term(v) == oracle(m, rows))
                    else:
                        eqs.append(z3.BoolVal(False))
            acc.check(ctx, "empty_combination_is_nan", z3.BoolVal(bool(nan_ok)), signature="empty_nan", extra=ex)
            acc.check(ctx, "cell_equals_metric_on_exactly_that_subgroup", z3.And(eqs) if eqs else z3.BoolVal(True), signature="cell", extra=ex)
            # overall: per observed control combination (all rows without control features)
            ov = _cells(overall, names, series_is_metrics=(job["form"] != "callable" and ncf == 0))
            if ncf == 0:
                exp_ov = {(): list(range(n))}
            else:
                ucf = [sorted(set(c)) for c in cf_cols]
                exp_ov = {combo: [i for i in range(n) if all(cf_cols[c][i] == combo[c] for c in range(ncf))] for combo in itertools.product(*ucf)}
            oeqs, o_struct = [], set(ov.keys()) == set(names)
            for m in names:
                if m not in ov:
                    continue
                if set(ov[m].keys()) != set(exp_ov.keys()):
                    o_struct = False
                    continue
                for combo, rows in exp_ov.items():
                    v = ov[m][combo]
                    if not rows:
                        o_struct = o_struct and core.is_nan(v)
                    elif core.is_sym(v):
                        oeqs.append(term(v) == oracle(m, rows))
                    else:
                        oeqs.append(z3.BoolVal(False))
            acc.check(ctx, "overall_structure", z3.BoolVal(bool(o_struct)), signature="overall_index", extra=ex)
            acc.check(ctx, "overall_equals_metric_on_all_rows_of_control_combination", z3.And(oeqs) if oeqs else z3.BoolVal(True),
                      signature="overall", extra=ex)
            lev_ok = list(slev) == [f"S{j}" for j in range(nsf)] if nsf > 1 else list(slev) == ["sensitive_feature_0"]
            if ncf:
                lev_ok = lev_ok and (list(clev) == [f"C{j}" for j in range(ncf)] if ncf > 1 else list(clev) == ["control_feature_0"])
            else:
                lev_ok = lev_ok and clev is None
            acc.check(ctx, "level_names", z3.BoolVal(bool(lev_ok)), signature="levels", extra=ex)
            # canary: dropping one row from a non-empty cell must be refutable
            m0 = names[0]
            full = [c for c in expected_index if any(all(gcols[k][i] == c[k] for k in range(len(gcols))) for i in range(n))]
            c0 = sorted(full)[0]
            rows0 = [i for i in range(n) if all(gcols[k][i] == c0[k] for k in range(len(gcols)))]
            acc.canary(ctx, "canary_cell_missing_a_row", term(bg[m0][c0]) == oracle(m0, rows0[1:]) + 1)
            if si == 0:
                acc.sample({"job": job["id"], "struct": struct, "cell": str(c0), "value": str(z3.simplify(term(bg[m0][c0])))[:300]})

        acc.explore(run, on_ok, deadline=deadline, max_paths=4, record_funcs=(si == 0))
    return acc.result()


# ---- replay: an injective concrete interpretation of G makes a wrong row set visible ------------
def replay(cex):
    from fairlearn.metrics import MetricFrame

    job, mdl = cex["job"], cex["model"]
    struct = cex["extra"]["struct"]
    n, nsf, ncf = job["n"], job["nsf"], job["ncf"]
    # distinct powers of two per row: any different multiset of rows gives a different sum
    # row i carries (2^(i+1), 3^(i+1), 5^(i+1)); the metric multiplies within a row, so both a wrong row set and a
    # mis-paired per-sample parameter change the value (unique factorisation)
    t = [float(2 ** (i + 1)) for i in range(n)]
    p = [float(3 ** (i + 1)) for i in range(n)]
    s = [float(5 ** (i + 1)) for i in range(n)]

    def g(y_true, y_pred, s=None):
        return float(sum(a * b * c for a, b, c in zip(y_true, y_pred, s)))

    def h(y_true, y_pred):
        return float(sum(a * b for a, b in zip(y_true, y_pred)))

    colvals = [[_labels(job["labels"], c, lev) for lev in col] for c, col in enumerate(struct)]
    sf_cols, cf_cols = colvals[:nsf], colvals[nsf:]
    si = cex["extra"].get("si", 0)
    idx = list(range(n))[::-1] if si % 3 == 1 else (list(range(7, 7 + n)) if si % 3 == 2 else None)
    if idx is None:
        sf = pd.DataFrame({f"S{j}": sf_cols[j] for j in range(nsf)}) if nsf > 1 else sf_cols[0]
        cf = None if ncf == 0 else (pd.DataFrame({f"C{j}": cf_cols[j] for j in range(ncf)}) if ncf > 1 else np.array(cf_cols[0], dtype=object))
    else:
        sf = pd.DataFrame({f"S{j}": sf_cols[j] for j in range(nsf)}, index=idx) if nsf > 1 else pd.Series(sf_cols[0], index=idx, name="sensitive_feature_0")
        cf = None if ncf == 0 else (pd.DataFrame({f"C{j}": cf_cols[j] for j in range(ncf)}, index=idx) if ncf > 1 else pd.Series(cf_cols[0], index=idx, name="control_feature_0"))
    bad = []
    again = si % 2 == 1
    if job["form"] == "intcount":
        mfc = MetricFrame(metrics=metric_count, y_true=t, y_pred=p, sensitive_features=sf, control_features=cf)
        mfd = MetricFrame(metrics={"n": metric_count, "n2": metric_count2}, y_true=t, y_pred=p, sensitive_features=sf, control_features=cf)
        gcols = cf_cols + sf_cols
        problems = _intcount_problems(("intcount", mfc.by_group, mfc.overall, mfd.by_group, mfd.overall), gcols, [sorted(set(c)) for c in gcols], cf_cols, n, ncf)
        return {"reproduced": bool(problems), "detail": "; ".join(problems)[:600] + f" | struct={struct} layout={job['layout']}"}
    try:
        if job["form"] == "callable":
            kw = dict(metrics=g, y_true=np.array(t), y_pred=p, sensitive_features=sf, control_features=cf, sample_params={"s": np.array(s)})
            if again:
                MetricFrame(**kw).by_group
            mf = MetricFrame(**kw)
            names = ["g"]
        elif job["form"] == "dict":
            kw = dict(metrics={"g": g, "h": h}, y_true=t, y_pred=np.array(p), sensitive_features=sf, control_features=cf, sample_params={"g": {"s": s}})
            if again:
                MetricFrame(**kw).by_group
            mf = MetricFrame(**kw)
            names = ["g", "h"]
        else:
            s2 = [float(7 ** (i + 1)) for i in range(n)]
            kw = dict(metrics={"g": g, "g2": g, "h": h}, y_true=t, y_pred=np.array(p), sensitive_features=sf, control_features=cf,
                      sample_params={"g": {"s": s}, "g2": {"s": np.array(s2)}})
            if again:
                MetricFrame(**kw).by_group
            mf = MetricFrame(**kw)
            names = ["g", "g2", "h"]
        fn = {"g": lambda rows: sum(t[i] * p[i] * s[i] for i in rows), "h": lambda rows: sum(t[i] * p[i] for i in rows)}
        if job["form"] == "dict2":
            fn["g2"] = lambda rows: sum(t[i] * p[i] * s2[i] for i in rows)
        gcols = cf_cols + sf_cols
        uniq = [sorted(set(c)) for c in gcols]
        expected_index = set(itertools.product(*uniq))
        bg = _cells(mf.by_group, names)
        for m in names:
            if set(bg[m].keys()) != expected_index:
                bad.append(f"by_group index {sorted(bg[m].keys())} != product of observed values {sorted(expected_index)}")
                continue
            for combo in expected_index:
                rows = [i for i in range(n) if all(gcols[c][i] == combo[c] for c in range(len(gcols)))]
                v = bg[m][combo]
                if not rows:
                    if not (isinstance(v, float) and math.isnan(v)):
                        bad.append(f"empty combination {combo} reported as {v!r}, not NaN")
                elif not (np.ndim(v) == 0 and abs(float(v) - fn[m](rows)) < 1e-6):
                    bad.append(f"cell {m}{combo} = {v!r}, metric on its rows {rows} = {fn[m](rows)}")
        ov = _cells(mf.overall, names, series_is_metrics=(job["form"] != "callable" and ncf == 0))
        exp_ov = {(): list(range(n))} if ncf == 0 else {
            combo: [i for i in range(n) if all(cf_cols[c][i] == combo[c] for c in range(ncf))]
            for combo in itertools.product(*[sorted(set(c)) for c in cf_cols])}
        for m in names:
            if set(ov[m].keys()) != set(exp_ov.keys()):
                bad.append(f"overall index {sorted(ov[m].keys())} != {sorted(exp_ov.keys())}")
                continue
            for combo, rows in exp_ov.items():
                v = ov[m][combo]
                if rows and not abs(float(v) - fn[m](rows)) < 1e-6:
                    bad.append(f"overall {m}{combo} = {v!r}, expected {fn[m](rows)}")
    except Exception as e:
        bad.append(f"raised {type(e).__name__}: {e}")
        return {"reproduced": True, "signature": f"exception:{type(e).__name__}:n{'1' if n == 1 else '>1'}",
                "detail": f"MetricFrame raised {type(e).__name__}: {e} | struct={struct} layout={job['layout']} form={job['form']}"}
    return {"reproduced": bool(bad), "detail": "; ".join(bad)[:700] + f" | struct={struct} layout={job['layout']} form={job['form']}"}
