"""C03 - named fairness metrics equal their first-principles definitions."""
import itertools
import math
import random

import numpy as np
import z3

from symx import core, oracle as O, stubs
from symx.core import SReal, integer, real, term
from symx.runner import F, JobAcc

PROPERTY = "C03"
BUDGET = {"quick": 170, "thorough": 1700}
META = {
    "explanation": "bounded symbolic execution of the real demographic_parity_*, equal_opportunity_*, equalized_odds_* functions, the generated "
                   "<rate>_{difference,ratio} functions and _DerivedMetric.__call__ (with the whole MetricFrame stack underneath) on symbolic binary "
                   "labels/predictions (z3 Int in {0,1}) and symbolic positive sample weights; group assignment is structural (restricted-growth "
                   "strings). Oracle: per-group weighted rates as If-sums from the rows, then max-min / min/max / to_overall variants / EO worst-case "
                   "or mean, written independently in proxy arithmetic. For generated functions over sklearn base metrics, the real dispatcher of each "
                   "generated function object runs with its metric replaced by an uninterpreted per-row sum G (plus a bound parameter), deciding "
                   "sample-param / transform-param / bound-param routing and the transform bound to each generated name.",
    "tier_bounds": {"quick": "n<=3 rows with symbolic labels (n=4 with seeded concrete labels), 1..3 groups, weighted and unweighted, both methods, both agg; "
                             "all 27 generated function objects + a user make_derived_metric through the uninterpreted-metric dispatcher check (n<=3)",
                    "thorough": "n<=4 symbolic labels, n=5..6 seeded labels, <=4 groups"},
    "trusted_base": ["z3", "symx", "confusion_matrix / unique stubs (validated)", "pandas as executed"],
    "stubs": ["_base_metrics.skm.confusion_matrix", "_base_metrics.np.unique", "nanops._ensure_numeric"],
    "assumptions": ["weights > 0", "labels in {0,1}", "exact reals"],
    "outside": ["sklearn base metrics as numeric functions (environment)", "n beyond the bound"],
}
MANIFEST = {
    "level_text": "Bounded symbolic verification against an independent first-principles oracle: for every group structure in the bound, ALL binary "
                  "label/prediction vectors and ALL positive weight vectors are covered by solver-decided path classes; existing tests compare each "
                  "function with a MetricFrame built the same way, so they share defects - this oracle does not call fairlearn.",
    "level_note": "Trusted: z3, symx, the sklearn confusion_matrix stub (differentially validated each run). Exact reals. n<=3/4.",
    "design_ref": "DESIGN.md section 6 C03",
}


def setup():
    stubs.install_base_metrics_stubs()
    stubs.LABEL_DOMAIN[0] = [0, 1]


def prechecks():
    it = stubs.validate_confusion_matrix_stub(seed=1, cases=20)
    return {"ok": it["ok"], "items": [it]}


FAMILIES = {
    "dp": [("demographic_parity_difference", "sel", "difference"), ("demographic_parity_ratio", "sel", "ratio"),
           ("selection_rate_difference", "sel", "difference"), ("selection_rate_ratio", "sel", "ratio")],
    "eop": [("equal_opportunity_difference", "tpr", "difference"), ("equal_opportunity_ratio", "tpr", "ratio"),
            ("true_positive_rate_difference", "tpr", "difference"), ("true_positive_rate_ratio", "tpr", "ratio")],
    "eo": [("equalized_odds_difference", "eo", "difference"), ("equalized_odds_ratio", "eo", "ratio")],
    "neg": [("true_negative_rate_difference", "tnr", "difference"), ("true_negative_rate_ratio", "tnr", "ratio"),
            ("false_positive_rate_difference", "fpr", "difference"), ("false_positive_rate_ratio", "fpr", "ratio"),
            ("false_negative_rate_difference", "fnr", "difference"), ("false_negative_rate_ratio", "fnr", "ratio")],
}


def jobs(tier, seed):
    rnd = random.Random(seed)
    js = []
    nsym = 3 if tier == "quick" else 4
    nconc = (4,) if tier == "quick" else (5, 6)
    maxg = 3 if tier == "quick" else 4
    for fam in FAMILIES:
        for n in range(1, nsym + 1):
            for g in core.rgs(n, maxg):
                for wt in (True, False):
                    if tier == "quick" and n == 3 and wt:
                        # quick: 3 rows + symbolic weights only with seeded concrete labels (below); symbolic labels unweighted
                        yt = [rnd.randint(0, 1) for _ in range(n)]
                        yp = [rnd.randint(0, 1) for _ in range(n)]
                        js.append({"id": f"{fam}-n{n}-{''.join(map(str, g))}-wconc", "kind": "rates", "family": fam, "n": n, "groups": list(g),
                                   "weighted": True, "labels": [yt, yp]})
                        continue
                    js.append({"id": f"{fam}-n{n}-{''.join(map(str, g))}-{'w' if wt else 'nw'}", "kind": "rates", "family": fam, "n": n,
                               "groups": list(g), "weighted": wt, "labels": None})
        for n in nconc:
            gs = list(core.rgs(n, maxg))
            rnd.shuffle(gs)
            for g in gs[:(3 if tier == "quick" else 8)]:
                yt = [rnd.randint(0, 1) for _ in range(n)]
                yp = [rnd.randint(0, 1) for _ in range(n)]
                js.append({"id": f"{fam}-n{n}-{''.join(map(str, g))}-conc", "kind": "rates", "family": fam, "n": n, "groups": list(g),
                           "weighted": True, "labels": [yt, yp]})
    # the {-1,+1} coding of binary labels/predictions (documented for the base metrics; the positive class is still 1)
    enc = []
    for fam in ("dp", "eop", "eo"):
        for g in ((0, 1), (0, 0)) if tier == "quick" else ((0, 1), (0, 0), (0, 1, 1), (0, 1, 2)):
            for wt in (False, True):
                enc.append({"id": f"{fam}-n{len(g)}-{''.join(map(str, g))}-{'w' if wt else 'nw'}-m11", "kind": "rates", "family": fam, "n": len(g),
                            "groups": list(g), "weighted": wt, "labels": None, "neg": -1})
    js = enc + js
    for n in (2, 3):
        for g in core.rgs(n, 3):
            for c in range(4):
                js.append({"id": f"derived-n{n}-{''.join(map(str, g))}-part{c}", "kind": "derived", "n": n, "groups": list(g), "part": c})
    return js


# ---- oracle ------------------------------------------------------------------------------------------
NEG = [0]  # value of the negative class in the current job: 0, or -1 for the {-1,+1} coding the base metrics document


def _rate(kind, rows, yt, yp, w):
    is1 = lambda v: stubs.eq_term(v, 1)
    is0 = lambda v: stubs.eq_term(v, NEG[0])
    num_c, den_c = {
        "sel": (lambda i: is1(yp[i]), lambda i: z3.BoolVal(True)),
        "tpr": (lambda i: z3.And(is1(yt[i]), is1(yp[i])), lambda i: is1(yt[i])),
        "fnr": (lambda i: z3.And(is1(yt[i]), is0(yp[i])), lambda i: is1(yt[i])),
        "fpr": (lambda i: z3.And(is0(yt[i]), is1(yp[i])), lambda i: is0(yt[i])),
        "tnr": (lambda i: z3.And(is0(yt[i]), is0(yp[i])), lambda i: is0(yt[i])),
    }[kind]
    num = core.zsum([z3.If(num_c(i), term(w[i]), z3.RealVal(0)) for i in rows])
    den = core.zsum([z3.If(den_c(i), term(w[i]), z3.RealVal(0)) for i in rows])
    if core.cur().decide(den == 0):
        return SReal(z3.RealVal(0))  # documented: an empty conditioning class gives rate 0
    return SReal(num / den)


def _transform(vals, overall, transform, method):
    if transform == "difference":
        if method == "between_groups":
            return O.omax(vals) - O.omin(vals)
        return O.omax([O.oabs(v - overall) for v in vals])
    if method == "between_groups":
        return O.odiv(O.omin(vals), O.omax(vals))
    return O.omin(O.drop_nan([O.fold(O.odiv(v, overall)) for v in vals]))


def _oracle(kind, transform, method, agg, groups, yt, yp, w):
    n = len(groups)
    gl = sorted(set(groups))

    def one(k):
        vals = [_rate(k, [i for i in range(n) if groups[i] == g], yt, yp, w) for g in gl]
        return _transform(vals, _rate(k, list(range(n)), yt, yp, w), transform, method)

    if kind != "eo":
        return one(kind)
    a, b = one("tpr"), one("fpr")
    if agg == "mean":
        if core.is_nan(a) or core.is_nan(b):  # Series.mean() skips NaN
            rest = O.drop_nan([a, b])
            return rest[0] if rest else math.nan
        return (a + b) / 2
    if transform == "difference":
        return O.omax([a, b]) if not (core.is_nan(a) or core.is_nan(b)) else _py_minmax(max, a, b)
    return O.omin([a, b]) if not (core.is_nan(a) or core.is_nan(b)) else _py_minmax(min, a, b)


def _py_minmax(fn, a, b):
    # builtin max/min over a pandas Series containing NaN: order-dependent python semantics (tpr first)
    return fn([a, b])


G = z3.Function("G", z3.RealSort(), z3.RealSort(), z3.RealSort(), z3.RealSort())


def run_job(job, deadline):
    import fairlearn.metrics as fm

    acc = JobAcc(job)
    n, groups = job["n"], job["groups"]
    labels = ["g%d" % g for g in groups]
    if job["kind"] == "derived":
        return _run_derived(job, acc, deadline)

    NEG[0] = job.get("neg", 0)
    stubs.LABEL_DOMAIN[0] = [NEG[0], 1]

    def mk():
        if job["labels"] is None:
            yt = [integer(f"yt{i}", NEG[0], 1) for i in range(n)]
            yp = [integer(f"yp{i}", NEG[0], 1) for i in range(n)]
            if NEG[0] != 0:
                for v in yt + yp:
                    core.cur().assume(v.e != 0)
        else:
            yt, yp = list(job["labels"][0]), list(job["labels"][1])
        w = [real(f"w{i}", 0, None, lo_strict=True) for i in range(n)] if job["weighted"] else None
        return yt, yp, w

    def run():
        yt, yp, w = mk()
        ww = w if w is not None else [1] * n
        res = {}
        for fname, kind, transform in FAMILIES[job["family"]]:
            fn = getattr(fm, fname)
            for method in ("between_groups", "to_overall"):
                for agg in (("worst_case", "mean") if kind == "eo" else (None,)):
                    kw = {"sensitive_features": labels, "method": method}
                    if w is not None:
                        kw["sample_weight"] = w
                    if agg:
                        kw["agg"] = agg
                    try:
                        got = fn(yt, yp, **kw)
                    except Exception as e:
                        got = e
                    want = _oracle(kind, transform, method, agg, groups, yt, yp, ww)
                    res[(fname, method, agg)] = (got, want)
            # history: the same function object is now called WITHOUT method= (after the to_overall call): documented default is between_groups
            kw = {"sensitive_features": labels}
            if w is not None:
                kw["sample_weight"] = w
            try:
                got = fn(yt, yp, **kw)
            except Exception as e:
                got = e
            res[(fname, "default_after_to_overall", None)] = (got, _oracle(kind, transform, "between_groups", "worst_case" if kind == "eo" else None, groups, yt, yp, ww))
        return res

    def on_ok(ctx, res):
        acc.reach(ctx)
        items = []
        for (fname, method, agg), (got, want) in res.items():
            sig = f"{fname}:{method}" + (f":{agg}" if agg else "")
            if isinstance(got, Exception):
                items.append((fname + "_no_exception", z3.BoolVal(False), sig + ":exception", {"exc": repr(got)}))
            else:
                items.append((fname + "_equals_definition", O.same(got, want), sig))
        acc.check_all(ctx, items)
        k0 = next(iter(res))
        g0, w0 = res[k0]
        if core.is_sym(g0):
            acc.canary(ctx, "canary_shift", O.same(g0, w0 + 1) if not isinstance(w0, float) or math.isfinite(w0) else z3.BoolVal(False))
        else:
            acc.r["canaries"] += 1
            acc.r["canaries_fired"] += 1
        acc.sample({"job": job["id"], "fn": str(k0), "value": str(g0)[:200]})

    acc.explore(run, on_ok, deadline=deadline, max_paths=30000)
    return acc.result()


def _run_derived(job, acc, deadline):
    """Every generated function object + a user-made one, metric replaced by an uninterpreted per-row sum."""
    import fairlearn.metrics as fm
    from fairlearn.metrics._generated_metrics import _generated_metric_dict
    from fairlearn.metrics import make_derived_metric

    n, groups = job["n"], job["groups"]
    labels = ["g%d" % g for g in groups]
    gl = sorted(set(groups))

    def make_metric(name):
        def metric(y_true, y_pred, sample_weight=None, beta=0):
            sw = sample_weight if sample_weight is not None else [1] * len(y_true)
            tot = core.zsum([G(term(a), term(b), term(c)) for a, b, c in zip(list(y_true), list(y_pred), list(sw))])
            return SReal(tot) + beta
        metric.__name__ = name
        return metric

    user = {f"user_{t}": make_derived_metric(metric=make_metric("user"), transform=t) for t in ("difference", "ratio", "group_min", "group_max")}
    targets = dict(_generated_metric_dict)
    targets.update(user)

    for name, fn in sorted(targets.items())[job.get("part", 0)::4]:
        transform = name.rsplit("_", 1)[-1] if not name.startswith("user_") else name[5:]
        transform = {"min": "group_min", "max": "group_max"}.get(transform, transform)

        def run(fn=fn, name=name, transform=transform):
            t = [real(f"t{i}") for i in range(n)]
            p = [real(f"p{i}") for i in range(n)]
            w = [real(f"w{i}", 0, None, lo_strict=True) for i in range(n)]
            beta = real("beta")
            saved = fn._metric_fn
            fn._metric_fn = make_metric(saved.__name__)
            try:
                out = {}
                methods = ("between_groups", "to_overall") if transform in ("difference", "ratio") else (None,)
                for method in methods:
                    kw = {"sensitive_features": labels, "sample_weight": w, "beta": beta}
                    if method:
                        kw["method"] = method
                    try:
                        got = fn(t, p, **kw)
                    except Exception as e:
                        got = e
                    cell = lambda rows: SReal(core.zsum([G(term(t[i]), term(p[i]), term(w[i])) for i in rows])) + beta
                    vals = [cell([i for i in range(n) if groups[i] == g]) for g in gl]
                    ov = cell(list(range(n)))
                    if transform == "group_min":
                        want = O.omin(vals)
                    elif transform == "group_max":
                        want = O.omax(vals)
                    else:
                        want = _transform(vals, ov, transform, method)
                    out[method] = (got, want)
                if transform in ("difference", "ratio"):
                    try:
                        got = fn(t, p, sensitive_features=labels, sample_weight=w, beta=beta)  # no method= after a to_overall call
                    except Exception as e:
                        got = e
                    out["default_after_to_overall"] = (got, _transform(vals, ov, transform, "between_groups"))
                return out
            finally:
                fn._metric_fn = saved

        def on_ok(ctx, out, name=name):
            acc.reach(ctx)
            items = []
            for method, (got, want) in out.items():
                sig = f"derived:{name}:{method}"
                if isinstance(got, Exception):
                    items.append(("derived_no_exception", z3.BoolVal(False), sig + ":exception", {"exc": repr(got), "fn": name}))
                else:
                    items.append(("derived_equals_metricframe_transform", O.same(got, want), sig, {"fn": name}))
            acc.check_all(ctx, items)
            got0, want0 = next(iter(out.values()))
            if core.is_sym(got0) and core.is_sym(want0):
                acc.canary(ctx, "canary_derived", O.same(got0, want0 + 1))
            else:
                acc.r["canaries"] += 1
                acc.r["canaries_fired"] += 1

        acc.explore(run, on_ok, deadline=deadline, max_paths=3000, record_funcs=name.startswith("user_"))
    return acc.result()


# ---- replay --------------------------------------------------------------------------------------------
def _conc_oracle(kind, transform, method, agg, groups, yt, yp, w):
    from fractions import Fraction as Fr

    n = len(groups)
    gl = sorted(set(groups))

    def rate(k, rows):
        ng = NEG[0]
        num_c, den_c = {"sel": (lambda i: yp[i] == 1, lambda i: True), "tpr": (lambda i: yt[i] == 1 and yp[i] == 1, lambda i: yt[i] == 1),
                        "fnr": (lambda i: yt[i] == 1 and yp[i] == ng, lambda i: yt[i] == 1), "fpr": (lambda i: yt[i] == ng and yp[i] == 1, lambda i: yt[i] == ng),
                        "tnr": (lambda i: yt[i] == ng and yp[i] == ng, lambda i: yt[i] == ng)}[k]
        num = sum((Fr(w[i]) for i in rows if num_c(i)), Fr(0))
        den = sum((Fr(w[i]) for i in rows if den_c(i)), Fr(0))
        return float(num / den) if den else 0.0

    def div(a, b):
        return a / b if b != 0 else (math.nan if a == 0 else math.copysign(math.inf, a))

    def fold(r):
        return r if (math.isnan(r) or not r > 1) else (0.0 if math.isinf(r) else 1 / r)

    def one(k):
        vals = [rate(k, [i for i in range(n) if groups[i] == g]) for g in gl]
        ov = rate(k, list(range(n)))
        if transform == "difference":
            return max(vals) - min(vals) if method == "between_groups" else max(abs(v - ov) for v in vals)
        if method == "between_groups":
            return div(min(vals), max(vals))
        rs = [x for x in (fold(div(v, ov)) for v in vals) if not math.isnan(x)]
        return min(rs) if rs else math.nan

    if kind != "eo":
        return one(kind)
    a, b = one("tpr"), one("fpr")
    if agg == "mean":
        rest = [x for x in (a, b) if not math.isnan(x)]
        return sum(rest) / len(rest) if rest else math.nan
    return (max if transform == "difference" else min)([a, b])


def replay(cex):
    import fairlearn.metrics as fm

    job, mdl = cex["job"], cex["model"]
    n, groups = job["n"], job["groups"]
    labels = ["g%d" % g for g in groups]
    if job["kind"] == "derived":
        return _replay_derived(cex)
    NEG[0] = job.get("neg", 0)
    if job["labels"] is None:
        yt = [int(F(mdl[f"yt{i}"])) for i in range(n)]
        yp = [int(F(mdl[f"yp{i}"])) for i in range(n)]
    else:
        yt, yp = job["labels"]
    wf = [F(mdl.get(f"w{i}", "1")) for i in range(n)]
    bad = []
    with np.errstate(all="ignore"):
        for fname, kind, transform in FAMILIES[job["family"]]:
            for method in ("between_groups", "to_overall"):
                for agg in (("worst_case", "mean") if kind == "eo" else (None,)):
                    kw = {"sensitive_features": labels, "method": method}
                    if job["weighted"]:
                        kw["sample_weight"] = [float(x) for x in wf]
                    if agg:
                        kw["agg"] = agg
                    want = _conc_oracle(kind, transform, method, agg, groups, yt, yp, wf if job["weighted"] else [1] * n)
                    try:
                        got = float(getattr(fm, fname)(yt, yp, **kw))
                    except Exception as e:
                        bad.append(f"{fname}({method},{agg}) raised {type(e).__name__}: {e}")
                        continue
                    same = (math.isnan(got) and math.isnan(want)) or got == want or abs(got - want) <= 1e-9 * max(1, abs(want))
                    if not same:
                        bad.append(f"{fname}(method={method}{', agg=' + agg if agg else ''}) = {got!r}, definition gives {want!r}")
            kw = {"sensitive_features": labels}
            if job["weighted"]:
                kw["sample_weight"] = [float(x) for x in wf]
            want = _conc_oracle(kind, transform, "between_groups", "worst_case" if kind == "eo" else None, groups, yt, yp, wf if job["weighted"] else [1] * n)
            try:
                got = float(getattr(fm, fname)(yt, yp, **kw))
                if not ((math.isnan(got) and math.isnan(want)) or abs(got - want) <= 1e-9 * max(1, abs(want))):
                    bad.append(f"{fname}() without method= (after a method='to_overall' call) = {got!r}, documented default between_groups gives {want!r}")
            except Exception as e:
                bad.append(f"{fname}() raised {type(e).__name__}: {e}")
    return {"reproduced": bool(bad), "detail": "; ".join(bad)[:700] + f" | y_true={yt} y_pred={yp} groups={groups} weights={[str(x) for x in wf] if job['weighted'] else None}"}


def _replay_derived(cex):
    """concrete, non-separable metric through the real generated function object's dispatcher"""
    import fairlearn.metrics as fm
    from fairlearn.metrics._generated_metrics import _generated_metric_dict
    from fairlearn.metrics import make_derived_metric, MetricFrame

    job = cex["job"]
    n, groups = job["n"], job["groups"]
    labels = ["g%d" % g for g in groups]
    gl = sorted(set(groups))
    name = cex["extra"].get("fn")
    t = [float(2 ** (i + 1)) for i in range(n)]
    p = [float(3 ** (i + 1)) for i in range(n)]
    w = [float(5 ** (i + 1)) for i in range(n)]
    beta = 0.5

    def metric(y_true, y_pred, sample_weight=None, beta=0):
        sw = sample_weight if sample_weight is not None else [1.0] * len(y_true)
        return float(sum(a * b * c for a, b, c in zip(y_true, y_pred, sw))) / 1000.0 + beta

    if name.startswith("user_"):
        transform = name[5:]
        fn = make_derived_metric(metric=metric, transform=transform)
    else:
        fn = _generated_metric_dict[name]
        transform = {"min": "group_min", "max": "group_max"}.get(name.rsplit("_", 1)[-1], name.rsplit("_", 1)[-1])
    saved = fn._metric_fn
    metric.__name__ = getattr(saved, "__name__", "metric")
    fn._metric_fn = metric
    bad = []
    try:
        cell = lambda rows: sum(t[i] * p[i] * w[i] for i in rows) / 1000.0 + beta
        vals = [cell([i for i in range(n) if groups[i] == g]) for g in gl]
        ov = cell(list(range(n)))
        for method in (("between_groups", "to_overall") if transform in ("difference", "ratio") else (None,)):
            kw = {"sensitive_features": labels, "sample_weight": w, "beta": beta}
            if method:
                kw["method"] = method
            try:
                got = float(fn(t, p, **kw))
            except Exception as e:
                bad.append(f"{name}({method}) raised {type(e).__name__}: {e}")
                continue
            if transform == "group_min":
                want = min(vals)
            elif transform == "group_max":
                want = max(vals)
            elif transform == "difference":
                want = max(vals) - min(vals) if method == "between_groups" else max(abs(v - ov) for v in vals)
            else:
                fold = lambda r: 1 / r if r > 1 else r
                want = min(vals) / max(vals) if method == "between_groups" else min(fold(v / ov) for v in vals)
            if abs(got - want) > 1e-9 * max(1, abs(want)):
                bad.append(f"{name}(method={method}) = {got!r}, expected {want!r}")
    finally:
        fn._metric_fn = saved
    return {"reproduced": bool(bad), "detail": "; ".join(bad)[:600] + f" | groups={groups}"}
