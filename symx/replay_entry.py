"""Fresh-process replay of a counter-example on the real code (no proxies, no stubs)."""
import importlib
import json
import sys
import traceback
import warnings


def main():
    warnings.filterwarnings("ignore")
    harness, path = sys.argv[1], sys.argv[2]
    H = importlib.import_module(f"harness.{harness}")
    cex = json.load(open(path))
    try:
        res = H.replay(cex)
    except Exception as e:
        res = {"reproduced": False, "detail": f"replay crashed: {type(e).__name__}: {e} " + traceback.format_exc()[-800:]}
    print(json.dumps(res, default=str))


if __name__ == "__main__":
    main()
