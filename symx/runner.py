"""Common driver for the per-property harnesses: job fan-out, obligation discharge,
counter-example replay in a fresh process, known-findings, evidence, exit codes."""
import argparse
import fractions
import importlib
import json
import multiprocessing as mp
import os
import re
import subprocess
import sys
import time
import traceback

import z3

from . import core

VERIF = os.path.dirname(os.path.dirname(os.path.abspath(__file__)))
EVID = os.environ.get("VERIF_EVID") or os.path.join(VERIF, "evidence")  # VERIF_EVID: scratch evidence dir for mutant regression runs
REPLAYS = os.path.join(EVID, "replays")
EXIT_OK, EXIT_VIOLATION, EXIT_HARNESS = 0, 1, 2


def model_value(m, v):
    """z3 model value -> JSON-able exact string ('3/7', '2', 'true')."""
    val = m.eval(v, model_completion=True)
    if z3.is_int_value(val):
        return str(val.as_long())
    if z3.is_rational_value(val):
        return str(fractions.Fraction(val.numerator_as_long(), val.denominator_as_long()))
    if z3.is_true(val):
        return "true"
    if z3.is_false(val):
        return "false"
    if z3.is_algebraic_value(val):
        a = val.approx(30)
        return str(fractions.Fraction(a.numerator_as_long(), a.denominator_as_long()).limit_denominator(10 ** 12))
    return str(val)


def F(s):
    """inverse of model_value for numbers"""
    if isinstance(s, (int, float)):
        return fractions.Fraction(s)
    if s == "true":
        return True
    if s == "false":
        return False
    return fractions.Fraction(s)


class JobAcc:
    """Accumulates what one job (one structure) explored."""

    def __init__(self, job, ob_timeout_ms=60000, max_cex_per_ob=2):
        self.job = job
        self.ob_timeout_ms = ob_timeout_ms
        self.max_cex = max_cex_per_ob
        self.r = {
            "job": job.get("id", "?"), "paths": 0, "paths_with_obligations": 0, "unexplored": 0, "incomplete": 0,
            "aborted": {}, "obligations": 0, "discharged": 0, "unknown": 0, "sat": 0, "cex": [], "queries": 0,
            "solver_s": 0.0, "ob_solver_s": 0.0, "funcs": [], "samples": [], "canaries": 0, "canaries_fired": 0, "canaries_silent": 0,
            "reach_witness": 0, "errors": [], "ob_names": {}, "realisations": 0, "unknown_obs": [],
            "nontrivial": 0,
        }
        self._cex_count = {}

    # obligation over the current path --------------------------------------------------
    def check(self, ctx, name, formula, signature=None, extra=None, assumptions=()):
        """formula must hold on this path. Returns 'unsat' (holds) / 'sat' / 'unknown'."""
        r = self.r
        r["obligations"] += 1
        r["ob_names"][name] = r["ob_names"].get(name, 0) + 1
        if isinstance(formula, core.SBool):
            formula = formula.e
        if isinstance(formula, bool):
            formula = z3.BoolVal(formula)
        fs = z3.simplify(formula)
        if z3.is_true(fs) and ctx.incomplete:
            r["unknown"] += 1
            r["held_on_incomplete_paths"] = r.get("held_on_incomplete_paths", 0) + 1
            return "unsat"
        if z3.is_true(fs):  # closed formula that evaluates to true: nothing to send to the solver
            r["discharged"] += 1
            r["trivial"] = r.get("trivial", 0) + 1
            return "unsat"
        # a fresh (non-incremental) solver: z3's incremental mode uses a much weaker NRA strategy
        s = z3.Solver()
        s.set("timeout", self.ob_timeout_ms)
        s.add(*ctx.pc)
        for a in assumptions:
            s.add(a)
        s.add(z3.Not(formula))
        t = time.time()
        res = s.check()
        dt = time.time() - t
        r["ob_solver_s"] += dt
        r["queries"] += 1
        if res == z3.unsat:
            if ctx.incomplete:
                # the code under test realised a symbolic real on this path: the obligation holds for the committed value only, which is no for-all
                # claim - counted as undischarged (DESIGN 3.1), never as discharged
                r["unknown"] += 1
                r["held_on_incomplete_paths"] = r.get("held_on_incomplete_paths", 0) + 1
                return "unsat"
            r["discharged"] += 1
            return "unsat"
        if res == z3.unknown:
            r["unknown"] += 1
            if len(r["unknown_obs"]) < 5:
                r["unknown_obs"].append(f"{r['job']}:{name}")
            return "unknown"
        r["sat"] += 1
        k = (name, signature)
        self._cex_count[k] = self._cex_count.get(k, 0) + 1
        if self._cex_count[k] <= self.max_cex:
            m = s.model()
            r["cex"].append({
                "obligation": name, "signature": signature or name, "job": self.job,
                "model": {n: model_value(m, v) for n, v in ctx.inputs.items()},
                "extra": extra or {}, "incomplete_path": ctx.incomplete,
            })
        return "sat"

    def check_all(self, ctx, items, assumptions=()):
        """items: list of (name, formula, signature, extra).  One solver call for the conjunction; on failure each
        obligation is checked on its own so that the failing one is identified."""
        norm = []
        for it in items:
            name, formula = it[0], it[1]
            sig = it[2] if len(it) > 2 else None
            extra = it[3] if len(it) > 3 else None
            if isinstance(formula, core.SBool):
                formula = formula.e
            if isinstance(formula, bool):
                formula = z3.BoolVal(formula)
            norm.append((name, formula, sig, extra))
        if not norm:
            return "unsat"
        conj = z3.simplify(z3.And([f for _, f, _, _ in norm]))
        res = None
        if z3.is_true(conj):
            res = z3.unsat
        elif not z3.is_false(conj):
            s = z3.Solver()
            s.set("timeout", self.ob_timeout_ms)
            s.add(*ctx.pc)
            for a in assumptions:
                s.add(a)
            s.add(z3.Not(conj))
            t = time.time()
            res = s.check()
            self.r["ob_solver_s"] += time.time() - t
            self.r["queries"] += 1
        if res == z3.unsat:
            r = self.r
            for name, _, _, _ in norm:
                r["obligations"] += 1
                if ctx.incomplete:  # see check(): held for the committed value only
                    r["unknown"] += 1
                    r["held_on_incomplete_paths"] = r.get("held_on_incomplete_paths", 0) + 1
                else:
                    r["discharged"] += 1
                r["ob_names"][name] = r["ob_names"].get(name, 0) + 1
            return "unsat"
        out = "unsat"
        for name, f, sig, extra in norm:
            x = self.check(ctx, name, f, signature=sig, extra=extra, assumptions=assumptions)
            if x != "unsat":
                out = x
        return out

    def canary(self, ctx, name, formula):
        """A deliberately false obligation: must come back sat (reachability / non-vacuity twin)."""
        r = self.r
        r["canaries"] += 1
        if isinstance(formula, core.SBool):
            formula = formula.e
        s = z3.Solver()
        s.set("timeout", min(self.ob_timeout_ms, 20000))
        s.add(*ctx.pc)
        s.add(z3.Not(formula))
        res = s.check()
        r["queries"] += 1
        if res == z3.sat:
            r["canaries_fired"] += 1
        elif res == z3.unsat:
            r["canaries_silent"] += 1

    def reach(self, ctx):
        """assert(false) twin: the path condition itself must be satisfiable."""
        res = ctx.solver.check()
        self.r["queries"] += 1
        if res == z3.sat:
            self.r["reach_witness"] += 1
        return res == z3.sat

    def exception_cex(self, ctx, exc, signature=None, extra=None):
        """The code under test raised on a feasible path: candidate violation (replayed before reporting)."""
        r = self.r
        name = "no_unexpected_exception"
        r["obligations"] += 1
        r["ob_names"][name] = r["ob_names"].get(name, 0) + 1
        res = ctx.solver.check()
        if res != z3.sat:
            r["unknown"] += 1
            return
        r["sat"] += 1
        k = (name, signature)
        self._cex_count[k] = self._cex_count.get(k, 0) + 1
        if self._cex_count[k] <= self.max_cex:
            m = ctx.solver.model()
            ex = dict(extra or {})
            ex["exception"] = f"{type(exc).__name__}: {exc}"[:300]
            ex["traceback"] = "".join(traceback.format_exception(type(exc), exc, exc.__traceback__))[-1500:]
            r["cex"].append({"obligation": name, "signature": signature or name, "job": self.job,
                             "model": {n: model_value(m, v) for n, v in ctx.inputs.items()}, "extra": ex,
                             "incomplete_path": ctx.incomplete})

    def explore(self, fn, on_ok, assumptions=(), max_paths=100000, deadline=None, record_funcs=True):
        """fn(): one symbolic run of the real code, returns whatever on_ok needs.
        on_ok(ctx, out): states obligations through self.check."""
        first = [True]
        rec = core.FuncRecorder()

        def wrapped():
            if first[0] and record_funcs:
                first[0] = False
                with rec:
                    return fn()
            return fn()

        def on_path(pr):
            if pr.status == "ok":
                before = self.r["obligations"]
                try:
                    on_ok(pr.ctx, pr.out)
                except core.Abort as a:
                    self.r["aborted"][a.kind] = self.r["aborted"].get(a.kind, 0) + 1
                    if len(self.r["errors"]) < 5:
                        self.r["errors"].append(f"abort in obligations {a}")
                if self.r["obligations"] > before:
                    self.r["paths_with_obligations"] += 1
            elif pr.status != "abort:infeasible":
                if len(self.r["errors"]) < 5:
                    self.r["errors"].append(f"{pr.status} {pr.error}")

        st = core.explore(wrapped, assumptions, max_paths=max_paths, deadline=deadline, on_path=on_path)
        r = self.r
        r["paths"] += st["paths"]
        r["unexplored"] += st["unexplored"]
        r["incomplete"] += st["incomplete"]
        for k, v in st["aborted"].items():
            if k == "infeasible":
                continue
            r["aborted"][k] = r["aborted"].get(k, 0) + v
        r["queries"] += st["queries"]
        r["solver_s"] += st["solver_s"]
        r["realisations"] += st["realisations"]
        r["funcs"] = sorted(set(r["funcs"]) | rec.seen)
        return st

    def sample(self, s):
        if len(self.r["samples"]) < 3:
            self.r["samples"].append(s if isinstance(s, (dict, list)) else str(s)[:600])

    def error(self, msg):
        if len(self.r["errors"]) < 8:
            self.r["errors"].append(str(msg)[:800])

    def result(self):
        return self.r


_H = None


def _run_job(args):
    job, deadline = args
    if time.time() > deadline:
        return {"job": job.get("id", "?"), "skipped": True}
    try:
        t = time.time()
        r = _H.run_job(job, deadline)
        r["wall"] = round(time.time() - t, 2)
        return r
    except core.Abort as a:
        return {"job": job.get("id", "?"), "errors": [f"job aborted {a}"], "crashed": True}
    except Exception as e:  # harness bug: reported, never a verdict
        return {"job": job.get("id", "?"), "errors": [f"job crashed {type(e).__name__}: {e}\n" + traceback.format_exc()[-1500:]],
                "crashed": True}


def interleave(jobs, key=None):
    """Jobs past the wall-clock budget are skipped (and reported).  So that a loaded machine does not silently drop a whole KIND of job, the classes of
    jobs (job["kind"], else the first component of the id) take turns; the order inside a class is the harness's."""
    classes = {}
    for j in jobs:
        classes.setdefault(str(key(j)) if key else str(j.get("kind") or j.get("family") or str(j.get("id", "")).split("-")[0]), []).append(j)
    out, queues = [], list(classes.values())
    while queues:
        for q in list(queues):
            out.append(q.pop(0))
            if not q:
                queues.remove(q)
    return out


def load_known(prop):
    p = os.path.join(VERIF, "known_findings.json")
    if not os.path.exists(p):
        return []
    data = json.load(open(p))
    return [f for f in data.get("findings", []) if f.get("property") == prop and f.get("status") == "known"]


def match_known(known, cex):
    for k in known:
        if re.fullmatch(k["signature"], cex.get("signature", "")):
            return k
    return None


def main(harness_name, argv=None):
    global _H
    t0 = time.time()
    ap = argparse.ArgumentParser()
    ap.add_argument("--tier", default=os.environ.get("VERIF_TIER", "quick"), choices=["quick", "thorough"])
    ap.add_argument("--replay", default=None)
    ap.add_argument("--procs", type=int, default=int(os.environ.get("VERIF_PROCS", "16")))
    ap.add_argument("--budget", type=float, default=None, help="wall seconds for exploration")
    ap.add_argument("--only", default=None, help="regex on job ids")
    args = ap.parse_args(argv)
    seed = int(os.environ.get("VERIF_SEED", "0") or 0)
    H = importlib.import_module(f"harness.{harness_name}")
    _H = H
    prop = H.PROPERTY

    if args.replay:
        cex = json.load(open(args.replay))
        res = H.replay(cex)
        print(json.dumps(res, indent=1, default=str))
        if res.get("reproduced"):
            print(f"VIOLATION property={prop} replay={args.replay}")
            return EXIT_VIOLATION
        return EXIT_OK

    budget = args.budget or H.BUDGET[args.tier]
    deadline = t0 + budget
    core.patch_environment()
    H.setup()
    if not getattr(H, "NO_NP_PREDICATES", False):
        from symx import stubs as _stubs

        _stubs.install_np_predicates()
    pre = H.prechecks() if hasattr(H, "prechecks") else {"ok": True, "items": []}
    jobs = H.jobs(args.tier, seed)
    if args.only:
        jobs = [j for j in jobs if re.search(args.only, j.get("id", ""))]
    if not getattr(H, "KEEP_JOB_ORDER", False):
        jobs = interleave(jobs, getattr(H, "JOB_CLASS", None))
    results = []
    if args.procs > 1 and len(jobs) > 1:
        ctx = mp.get_context("fork")
        with ctx.Pool(min(args.procs, len(jobs))) as pool:
            for r in pool.imap_unordered(_run_job, [(j, deadline) for j in jobs], chunksize=1):
                results.append(r)
    else:
        for j in jobs:
            results.append(_run_job((j, deadline)))

    # ---- aggregate --------------------------------------------------------------------
    agg = {k: 0 for k in ("paths", "paths_with_obligations", "unexplored", "incomplete", "obligations", "discharged",
                          "unknown", "sat", "queries", "canaries", "canaries_fired", "canaries_silent", "reach_witness", "realisations",
                          "nontrivial")}
    solver_s = 0.0
    aborted, funcs, samples, errors, cexs, ob_names, unknown_obs = {}, set(), [], [], [], {}, []
    skipped = crashed = 0
    for r in results:
        if r.get("skipped"):
            skipped += 1
            continue
        if r.get("crashed"):
            crashed += 1
            errors.extend(r.get("errors", []))
            continue
        for k in agg:
            agg[k] += r.get(k, 0)
        solver_s += r.get("solver_s", 0.0) + r.get("ob_solver_s", 0.0)
        for k, v in r.get("aborted", {}).items():
            aborted[k] = aborted.get(k, 0) + v
        funcs |= set(r.get("funcs", []))
        if len(samples) < 6:
            samples.extend(r.get("samples", [])[:2])
        errors.extend(r.get("errors", []))
        cexs.extend(r.get("cex", []))
        unknown_obs.extend(r.get("unknown_obs", []))
        for k, v in r.get("ob_names", {}).items():
            ob_names[k] = ob_names.get(k, 0) + v

    # ---- replay counter-examples in a fresh process (no proxies, no stubs) -----------------
    os.makedirs(REPLAYS, exist_ok=True)
    known = load_known(prop)
    seen_sig, violations, known_hits, nonrepro, unit_level = {}, [], {}, [], []
    max_replays = getattr(H, "MAX_REPLAYS", 16)
    n_replayed = 0
    # one counter-example of every distinct signature first, so that no kind of violation is starved by the replay cap
    first, rest, seen_first = [], [], set()
    for c in cexs:
        (rest if c["signature"] in seen_first else first).append(c)
        seen_first.add(c["signature"])
    for c in first + rest:
        sig = c["signature"]
        if seen_sig.get(sig, 0) >= 2 or n_replayed >= max_replays:
            continue
        seen_sig[sig] = seen_sig.get(sig, 0) + 1
        n_replayed += 1
        path = os.path.join(REPLAYS, f"{prop}_{re.sub(r'[^A-Za-z0-9_.-]+', '_', sig)[:80]}_{seen_sig[sig]}.json")
        c["property"] = prop
        c["harness"] = harness_name
        json.dump(c, open(path, "w"), indent=1, default=str)
        try:
            out = subprocess.run([sys.executable, "-m", "symx.replay_entry", harness_name, path], cwd=VERIF,
                                 capture_output=True, text=True, timeout=300)
            rep = json.loads(out.stdout.strip().splitlines()[-1]) if out.stdout.strip() else {"reproduced": False, "detail": out.stderr[-500:]}
        except Exception as e:
            rep = {"reproduced": False, "detail": f"replay failed: {e}"}
        c["replay"] = rep
        if rep.get("reproduced"):
            if rep.get("signature"):
                c["signature"] = sig = rep["signature"]
            k = match_known(known, c)
            if k is not None:
                known_hits.setdefault(k["id"], (k, path))
            else:
                violations.append((c, path))
        else:
            if getattr(H, "UNIT_LEVEL_SIGS", None) and re.match(H.UNIT_LEVEL_SIGS, sig):
                unit_level.append((c, path, rep))
            else:
                nonrepro.append((c, path, rep))

    wall = time.time() - t0
    # a canary (deliberately false obligation) must never be "proved"; unknown (NRA model search) is inconclusive
    canary_ok = agg["canaries_silent"] == 0 and (agg["canaries_fired"] > 0 or getattr(H, "NO_CANARY", False))
    reach_ok = agg["paths_with_obligations"] > 0 or getattr(H, "NO_PATHS_OK", False)
    harness_errors = []
    if not canary_ok:
        harness_errors.append(f"canary: {agg['canaries_fired']}/{agg['canaries']} fired, {agg['canaries_silent']} silent")
    if not reach_ok:
        harness_errors.append("no path reached the obligations")
    if crashed:
        harness_errors.append(f"{crashed} job(s) crashed")
    for kind in getattr(H, "ABORT_IS_ERROR", ()):
        if aborted.get(kind):
            harness_errors.append(f"{aborted[kind]} path(s) aborted ({kind}): part of the code is outside the model, result inconclusive")
    if not pre.get("ok", True):
        harness_errors.append("prechecks (stub validation) failed: " + "; ".join(str(i) for i in pre.get("items", []) if not i.get("ok", True)))
    if nonrepro and not violations:
        harness_errors.append(f"{len(nonrepro)} counter-example(s) did not reproduce on the real code")

    meta = H.META
    tb = meta.get("tier_bounds", {}).get(args.tier, "")
    coverage = {
        "explanation": meta["explanation"] + " | bounds for this tier: " + tb,
        "obligations": agg["obligations"], "discharged": agg["discharged"],
        "undischarged_unknown": agg["unknown"], "refuted_sat": agg["sat"],
        "checker_cmd": f"bin/check {prop} --tier {args.tier}",
        "trusted_base": meta.get("trusted_base", []),
        "evaluations": max(agg["paths"], 1), "distinct_nontrivial": max(agg["paths_with_obligations"], 0),
        "rule": "one evaluation = one explored path (path condition = equivalence class of inputs following the same branches of the real code); "
                "non-trivial = the path reached the obligations and at least one obligation was sent to the solver",
        "samples": samples[:6] or ["(none)"],
        "functions_encoded": sorted(funcs), "jobs": len(jobs), "jobs_skipped_deadline": skipped, "jobs_crashed": crashed,
        "structure_space_exhausted": skipped == 0 and agg["unexplored"] == 0 and crashed == 0,
        "exhaustive": False,
        "paths": agg["paths"], "paths_unexplored": agg["unexplored"], "paths_incomplete": agg["incomplete"],
        "paths_aborted": aborted, "realisations": agg["realisations"],
        "solver_queries": agg["queries"], "solver_s": round(solver_s, 3), "solver": "z3 " + z3.get_version_string(),
        "obligations_by_name": ob_names, "unknown_obligations_sample": unknown_obs[:10],
        "canaries": agg["canaries"], "canaries_fired": agg["canaries_fired"], "canaries_silent": agg["canaries_silent"], "reachability_witnesses": agg["reach_witness"],
        "stubs": meta.get("stubs", []), "stub_validation": pre.get("items", []),
        "bounds": tb, "outside_claim": meta.get("outside", []),
        "counterexamples_found": len(cexs), "counterexamples_replayed": n_replayed,
        "violations": [{"signature": c["signature"], "replay": p, "detail": c["replay"].get("detail", "")[:300]} for c, p in violations],
        "known_findings_hit": [{"id": k["id"], "replay": p} for k, (kk, p) in known_hits.items() for k in [kk]],
        "non_reproducing": [{"signature": c["signature"], "replay": p, "detail": str(rep.get("detail", ""))[:300]} for c, p, rep in nonrepro],
        "unit_level_counterexamples": [{"signature": c["signature"], "replay": p, "confirmed_at_unit_level": bool(rep.get("unit_confirmed")),
                                        "detail": str(rep.get("detail", ""))[:300]} for c, p, rep in unit_level],
        "harness_errors": harness_errors, "path_errors_sample": errors[:8],
        "budget_s": budget, "procs": args.procs,
        "slowest_jobs": [{"job": r.get("job"), "wall_s": r.get("wall"), "paths": r.get("paths"), "solver_s": round(r.get("solver_s", 0.0) + r.get("ob_solver_s", 0.0), 1)}
                         for r in sorted([r for r in results if "wall" in r], key=lambda r: -r["wall"])[:5]],
    }
    ev = {"property_id": prop, "tier": args.tier, "seed": seed, "level": "other", "coverage": coverage,
          "assumptions": meta.get("assumptions", []), "wall_s": round(wall, 2), "violations": len(violations)}
    os.makedirs(EVID, exist_ok=True)
    json.dump(ev, open(os.path.join(EVID, f"{prop}.json"), "w"), indent=1, default=str)
    if not args.only:  # a per-tier copy survives later runs of the other tier (complete runs only)
        os.makedirs(os.path.join(EVID, "by_tier"), exist_ok=True)
        json.dump(ev, open(os.path.join(EVID, "by_tier", f"{prop}.{args.tier}.json"), "w"), indent=1, default=str)

    print(f"[{prop}] tier={args.tier} jobs={len(jobs)} (skipped {skipped}, crashed {crashed}) paths={agg['paths']} "
          f"unexplored={agg['unexplored']} incomplete={agg['incomplete']} aborted={aborted} obligations={agg['obligations']} "
          f"discharged={agg['discharged']} unknown={agg['unknown']} sat={agg['sat']} canaries={agg['canaries_fired']}/{agg['canaries']} "
          f"funcs={len(funcs)} solver_s={solver_s:.1f} wall={wall:.1f}s")
    for e in errors[:6]:
        print("  note:", str(e)[:400].replace("\n", " | "))
    if os.environ.get("VERIF_PROFILE"):
        for r in sorted([r for r in results if "wall" in r], key=lambda r: -r["wall"])[:12]:
            print(f"  slow: {r['job']} wall={r['wall']} paths={r['paths']} unexplored={r['unexplored']} solver_s={r['solver_s']:.1f}+{r['ob_solver_s']:.1f}")
    for kid, (k, path) in known_hits.items():
        print(f"KNOWN-FINDING: property={prop} {k['id']}: {k['what']} (replay={path})")
    for c, path, rep in unit_level[:4]:
        print(f"UNIT-LEVEL-COUNTEREXAMPLE property={prop} {c['signature']} (over-approximated precondition; not a violation unless the pipeline exploration confirms it) replay={path}")
    for c, path in violations:
        print(f"VIOLATION property={prop} replay={path}")
        print("  ", c["signature"], "|", str(c["replay"].get("detail", ""))[:300])
    if violations:
        return EXIT_VIOLATION
    if harness_errors:
        for h in harness_errors:
            print("HARNESS-ERROR:", h)
        for c, path, rep in nonrepro[:3]:
            print("  non-reproducing:", c["signature"], path, str(rep.get("detail", ""))[:300])
        return EXIT_HARNESS
    return EXIT_OK
