"""Environment stubs shared by harnesses (see DESIGN.md section 3.4).  Each stub only changes behaviour when it
sees a proxy; on concrete inputs the real library function runs.  Each has a validator against the real library."""
import sys

import numpy as np
import z3

from . import core
from .core import SBool, SNum, SReal, is_sym, term


def has_sym(*arrays):
    for a in arrays:
        if a is None:
            continue
        if is_sym(a):
            return True
        try:
            arr = np.asarray(a, dtype=object)
        except Exception:
            continue
        for v in arr.ravel():
            if is_sym(v):
                return True
    return False


def eq_term(v, c):
    """z3 Bool: value v (proxy or concrete) equals the concrete label c."""
    if isinstance(v, SNum):
        if isinstance(c, (str, bytes)):
            return z3.BoolVal(False)
        l = core.lift(c)
        if l is None:
            return z3.BoolVal(False)
        a, b = core._coerce(v.e, l)
        return a == b
    if isinstance(v, SBool):
        return v.e == z3.BoolVal(bool(c))
    try:
        return z3.BoolVal(bool(v == c))
    except Exception:
        return z3.BoolVal(False)


# ---- sklearn.metrics.confusion_matrix ----------------------------------------------------------
def confusion_matrix_sym(y_true, y_pred, *, labels=None, sample_weight=None, normalize=None):
    """cm[i,j] = sum_k w_k [yt_k = labels[i] and yp_k = labels[j]]; normalize='true' divides rows, all-zero rows -> 0."""
    yt = np.asarray(y_true, dtype=object).ravel()
    yp = np.asarray(y_pred, dtype=object).ravel()
    n = len(yt)
    if len(yp) != n:
        raise ValueError("Found input variables with inconsistent numbers of samples")
    if sample_weight is None:
        w = [1] * n
    else:
        w = list(np.asarray(sample_weight, dtype=object).ravel())
        if len(w) != n:
            raise ValueError("Found input variables with inconsistent numbers of samples")
    if labels is None:
        raise core.Abort("engine", "confusion_matrix stub needs labels")
    k = len(labels)
    cm = np.empty((k, k), dtype=object)
    for i, a in enumerate(labels):
        for j, b in enumerate(labels):
            terms = []
            for r in range(n):
                cond = z3.simplify(z3.And(eq_term(yt[r], a), eq_term(yp[r], b)))
                if z3.is_false(cond):
                    continue
                terms.append(z3.If(cond, term(w[r]), z3.RealVal(0)) if not z3.is_true(cond) else term(w[r]))
            cm[i, j] = SReal(core.zsum(terms))
    if normalize == "true":
        c = core.cur()
        for i in range(k):
            rs = core.zsum([cm[i, j].e for j in range(k)])
            if c.decide(rs == 0):
                for j in range(k):
                    cm[i, j] = SReal(z3.RealVal(0))  # a proxy, not a python float: object columns must keep IEEE division
            else:
                for j in range(k):
                    cm[i, j] = SReal(cm[i, j].e / rs)
    elif normalize is not None:
        raise core.Abort("engine", f"confusion_matrix stub: normalize={normalize!r} not modelled")
    return cm


class SkmStub:
    """Stands in for the `skm` global of fairlearn.metrics._base_metrics."""

    def __init__(self, real):
        self._real = real

    def __getattr__(self, name):
        return getattr(self._real, name)

    def confusion_matrix(self, y_true, y_pred, *, labels=None, sample_weight=None, normalize=None):
        if not has_sym(y_true, y_pred, sample_weight):
            return self._real.confusion_matrix(y_true, y_pred, labels=labels, sample_weight=sample_weight, normalize=normalize)
        return confusion_matrix_sym(y_true, y_pred, labels=labels, sample_weight=sample_weight, normalize=normalize)


# ---- np.unique on a finite-domain symbolic label vector -----------------------------------------
LABEL_DOMAIN = [None]  # set by the harness: sorted list of concrete values the symbolic labels range over


def unique_sym(ar, *args, **kwargs):
    if args or kwargs or not has_sym(ar):
        return np.unique(ar, *args, **kwargs)
    vals = list(np.asarray(ar, dtype=object).ravel())
    dom = LABEL_DOMAIN[0]
    if dom is None:
        raise core.Abort("engine", "unique stub: label domain not declared")
    c = core.cur()
    present = set()
    for v in vals:
        if not is_sym(v):
            present.add(v)
    sym = [v for v in vals if is_sym(v)]
    for d in dom:
        if d in present:
            continue
        if c.decide(z3.Or([eq_term(v, d) for v in sym])):
            present.add(d)
    # values outside the declared domain would be a harness bug: make it visible
    c.assume(z3.And([z3.Or([eq_term(v, d) for d in dom]) for v in sym]))
    return np.array(sorted(present))


def _is_object(*xs):
    """exact rationals (Fractions) in object arrays: numpy's predicates reject object dtype altogether"""
    for x in xs:
        try:
            if np.asarray(x).dtype == object:
                return True
        except Exception:
            return True
    return False


class NpStub:
    """Stands in for the `np` global of one module: only `unique` differs."""

    def __init__(self, real=np):
        self._real = real

    def __getattr__(self, name):
        return getattr(self._real, name)

    unique = staticmethod(unique_sym)

    # tolerant comparisons / predicates on proxies (numpy's own versions reject object dtype)
    def isclose(self, a, b, rtol=1e-05, atol=1e-08, equal_nan=False):
        if not (has_sym(a, b) or _is_object(a, b)):
            return self._real.isclose(a, b, rtol=rtol, atol=atol, equal_nan=equal_nan)
        if np.ndim(a) == 0 and np.ndim(b) == 0:
            if core._is_nonfinite(a) or core._is_nonfinite(b):
                return bool(a == b) if not (core.is_sym(a) or core.is_sym(b)) else False
            return abs(a - b) <= atol + rtol * abs(b)
        aa, bb = np.broadcast_arrays(np.asarray(a, dtype=object), np.asarray(b, dtype=object))
        return np.array([bool(self.isclose(x, y, rtol, atol)) for x, y in zip(aa.ravel(), bb.ravel())]).reshape(aa.shape)

    def allclose(self, a, b, rtol=1e-05, atol=1e-08, equal_nan=False):
        return bool(np.all(self.isclose(a, b, rtol, atol)))

    def isfinite(self, x):
        if not (has_sym(x) or _is_object(x)):
            return self._real.isfinite(x)
        if np.ndim(x) == 0:
            return True if is_sym(x) else bool(np.isfinite(float(x)))
        return np.array([True if is_sym(v) else bool(np.isfinite(float(v))) for v in np.asarray(x, dtype=object).ravel()]).reshape(np.shape(x))

    def isnan(self, x):
        if not (has_sym(x) or _is_object(x)):
            return self._real.isnan(x)
        if np.ndim(x) == 0:
            return False if is_sym(x) else bool(np.isnan(float(x)))
        return np.array([False if is_sym(v) else bool(np.isnan(float(v))) for v in np.asarray(x, dtype=object).ravel()]).reshape(np.shape(x))


class NpPredStub(NpStub):
    """numpy with proxy-aware predicates only (np.unique untouched): safe to install in any module"""

    unique = staticmethod(np.unique)


def install_np_predicates():
    """numpy's isclose / allclose / isfinite / isnan raise TypeError on object arrays that hold proxies.  Code under test that calls them (today or after a
    change) would crash the exploration instead of being explored, so every fairlearn module that refers to numpy as `np` gets a numpy whose predicates
    accept proxies (identical to numpy on ordinary input).  Modules that already have a stub keep it."""
    import importlib

    for sub in ("metrics", "reductions", "postprocessing", "preprocessing", "adversarial", "utils"):
        try:
            importlib.import_module(f"fairlearn.{sub}")
        except Exception:
            pass
    n = 0
    for name, mod in list(sys.modules.items()):
        if name.startswith("fairlearn.") and getattr(mod, "np", None) is np:
            mod.np = NpPredStub(np)
            n += 1
    return n


_installed = {}


def install_base_metrics_stubs():
    import fairlearn.metrics  # noqa: F401

    bm = sys.modules["fairlearn.metrics._base_metrics"]
    if "bm" not in _installed:
        _installed["bm"] = (bm.skm, bm.np)
        bm.skm = SkmStub(bm.skm)
        bm.np = NpStub(np)
    # every other metrics module gets the proxy-aware predicates too (isfinite / isnan / isclose on a proxy raise in numpy itself)
    for name, mod in list(sys.modules.items()):
        if name.startswith("fairlearn.metrics.") and getattr(mod, "np", None) is np:
            mod.np = NpStub(np)
    return bm


def validate_confusion_matrix_stub(seed=0, cases=40):
    """Differential validation against real sklearn on random concrete inputs (proxies wrapping constants)."""
    import sklearn.metrics as skm

    rng = np.random.default_rng(seed)
    bad = []
    for t in range(cases):
        n = int(rng.integers(1, 7))
        labs = [[0, 1], [-1, 1], [2, 5], [np.iinfo(np.int64).min, 1]][t % 4]
        pool = [l for l in labs if l > -100] or [1]
        yt = [int(rng.choice(pool)) for _ in range(n)]
        yp = [int(rng.choice(pool)) for _ in range(n)]
        w = [int(x) for x in rng.integers(1, 5, size=n)] if t % 3 else None
        norm = "true" if t % 2 else None
        with np.errstate(all="ignore"):
            want = skm.confusion_matrix(yt, yp, labels=labs, sample_weight=w, normalize=norm)
        got = {}

        def run():
            got["cm"] = confusion_matrix_sym([core.const(v) for v in yt], yp, labels=labs,
                                             sample_weight=None if w is None else [core.const(v) for v in w], normalize=norm)

        core.explore(run)
        g = np.array([[float(z3.simplify(term(x)).as_fraction()) if is_sym(x) else float(x) for x in row] for row in got["cm"]])
        if not np.allclose(g, want):
            bad.append((yt, yp, w, norm, labs))
    return {"stub": "confusion_matrix", "cases": cases, "ok": not bad, "bad": bad[:2]}
