"""Small first-principles oracles written over the same proxy arithmetic (IEEE corner cases included).
They are run inside the explored function, after the real code, so any decision they need is forked properly."""
import math

import z3

from . import core
from .core import is_nan, is_sym, term


def _isinf(x):
    return isinstance(x, float) and math.isinf(x)


def drop_nan(vals):
    return [v for v in vals if not is_nan(v)]


def omin(vals):
    vals = drop_nan(vals)
    if not vals:
        return math.nan
    m = vals[0]
    for v in vals[1:]:
        if v < m:
            m = v
    return m


def omax(vals):
    vals = drop_nan(vals)
    if not vals:
        return math.nan
    m = vals[0]
    for v in vals[1:]:
        if v > m:
            m = v
    return m


def oabs(x):
    if is_nan(x):
        return x
    return abs(x)


def odiv(a, b):
    """IEEE division on proxies / floats."""
    if is_nan(a) or is_nan(b):
        return math.nan
    if is_sym(a) or is_sym(b):
        if _isinf(a):
            if b >= 0:
                return a
            return -a
        return a / b
    if b == 0:
        if a == 0:
            return math.nan
        return math.inf if a > 0 else -math.inf
    return a / b


def fold(r):
    if is_nan(r):
        return r
    if r > 1:
        return odiv(1, r) if not _isinf(r) else 0.0
    return r


def same(a, b):
    """z3 Bool: two results (proxy / float incl. nan, inf) denote the same value."""
    if is_nan(a) or is_nan(b):
        return z3.BoolVal(is_nan(a) and is_nan(b))
    if _isinf(a) or _isinf(b):
        return z3.BoolVal(_isinf(a) and _isinf(b) and a == b)
    try:
        return term(a) == term(b)
    except (ValueError, TypeError):
        return z3.BoolVal(False)


def le(a, b):
    """z3 Bool a <= b (nan on either side: vacuous True)."""
    if is_nan(a) or is_nan(b):
        return z3.BoolVal(True)
    if _isinf(a) or _isinf(b):
        if is_sym(a) or is_sym(b):
            return z3.BoolVal((_isinf(b) and b > 0) or (_isinf(a) and a < 0))
        return z3.BoolVal(a <= b)
    return term(a) <= term(b)
