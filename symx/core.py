"""symx core: z3-backed proxy numbers that ride inside real numpy / pandas containers.

The real fairlearn source (imported from /repo's working tree) computes with these
proxies; every Python-level branch on a symbolic condition forks the exploration
(decision-prefix re-execution).  See DESIGN.md section 3.
"""
import fractions
import math
import numbers
import os
import sys
import time

import z3

DECIDE_TIMEOUT_MS = int(os.environ.get("SYMX_DECIDE_TIMEOUT_MS", "20000"))


class Abort(BaseException):
    """Ends the current path (BaseException so that `except Exception` in the code under test cannot swallow it)."""

    def __init__(self, kind, msg=""):
        super().__init__(f"{kind}: {msg}")
        self.kind = kind
        self.msg = msg


class Ctx:
    cur = None

    def __init__(self, script=(), assumptions=()):
        self.script = list(script)
        self.trace = []  # (value, forced)
        self.pc = []
        self.solver = z3.Solver()
        self.solver.set("timeout", DECIDE_TIMEOUT_MS)
        self.model = None
        self.nq = 0
        self.solver_s = 0.0
        self.incomplete = False
        self.strategy = 0  # concretisation preference of commit_real: 0 = any model value, 1 = tiny magnitude, 2 = huge magnitude, 3 = near an integer
        self.n_realise = 0
        self.counter = 0
        self.inputs = {}  # name -> z3 const, declared symbolic inputs (for counterexamples)
        self.notes = []
        for a in assumptions:
            self.assume(a)

    # -- variables -----------------------------------------------------------------
    def fresh(self, prefix, sort="real"):
        self.counter += 1
        name = f"{prefix}!{self.counter}"
        return z3.Real(name) if sort == "real" else (z3.Int(name) if sort == "int" else z3.Bool(name))

    def assume(self, e):
        if isinstance(e, SBool):
            e = e.e
        if isinstance(e, bool):
            if not e:
                raise Abort("infeasible", "assume(False)")
            return
        self.pc.append(e)
        self.solver.add(e)
        if self.model is not None:
            try:
                if not z3.is_true(self.model.eval(e, model_completion=True)):
                    self.model = None
            except z3.Z3Exception:
                self.model = None

    def _check(self, *extra):
        self.nq += 1
        t = time.time()
        r = self.solver.check(*extra)
        if r == z3.unknown:
            # z3's incremental mode is weak on NRA: retry once with a fresh solver
            s = z3.Solver()
            s.set("timeout", DECIDE_TIMEOUT_MS)
            s.add(*self.pc)
            s.add(*extra)
            r = s.check()
            self._fresh_model = s.model() if r == z3.sat else None
        else:
            self._fresh_model = None
        self.solver_s += time.time() - t
        return r

    def _model(self):
        return self._fresh_model if getattr(self, "_fresh_model", None) is not None else self.solver.model()

    # -- branching -----------------------------------------------------------------
    def decide(self, e):
        if isinstance(e, bool):
            return e
        e = z3.simplify(e)
        if z3.is_true(e):
            return True
        if z3.is_false(e):
            return False
        i = len(self.trace)
        if i < len(self.script):
            v = self.script[i]
            if not isinstance(v, bool):
                raise Abort("engine", f"script mismatch at {i}: expected bool got {v!r}")
            self.trace.append((v, True))
            self.model = None
        else:
            can_t = can_f = None
            mt = mf = None
            if self.model is not None:
                try:
                    mv = self.model.eval(e, model_completion=True)
                    if z3.is_true(mv):
                        can_t, mt = True, self.model
                    elif z3.is_false(mv):
                        can_f, mf = True, self.model
                except z3.Z3Exception:
                    pass
            if can_t is None:
                r = self._check(e)
                if r == z3.unknown:
                    raise Abort("unknown", "decide")
                can_t = r == z3.sat
                if can_t:
                    mt = self._model()
            if can_f is None:
                r = self._check(z3.Not(e))
                if r == z3.unknown:
                    raise Abort("unknown", "decide")
                can_f = r == z3.sat
                if can_f:
                    mf = self._model()
            if can_t and can_f:
                v = True
                self.trace.append((True, False))
                self.model = mt
            elif can_t:
                v = True
                self.trace.append((True, True))
                self.model = mt
            elif can_f:
                v = False
                self.trace.append((False, True))
                self.model = mf
            else:
                raise Abort("infeasible", "decide")
        c = e if v else z3.Not(e)
        self.pc.append(c)
        self.solver.add(c)
        return v

    def concretise(self, e):
        """Enumerating concretisation of an integer-sorted term (forks over every feasible value)."""
        self.n_realise += 1
        e = z3.simplify(e)
        if z3.is_int_value(e):
            return e.as_long()
        while True:
            i = len(self.trace)
            if i < len(self.script):
                v = self.script[i]
                if not isinstance(v, tuple):
                    raise Abort("engine", f"script mismatch at {i}: expected value entry got {v!r}")
                self.trace.append((v, True))
                self.model = None
                if v[0] == "c":
                    c = e == v[1]
                    self.pc.append(c)
                    self.solver.add(c)
                    return v[1]
                c = e != v[1]
                self.pc.append(c)
                self.solver.add(c)
                continue
            if self.model is None:
                r = self._check()
                if r != z3.sat:
                    raise Abort("infeasible" if r == z3.unsat else "unknown", "concretise")
                self.model = self._model()
            val = self.model.eval(e, model_completion=True)
            if not z3.is_int_value(val):
                raise Abort("engine", f"concretise non-int {val}")
            r = self._check(e != val)
            if r == z3.unknown:
                raise Abort("unknown", "concretise")
            v = val.as_long()
            self.trace.append((("c", v), r == z3.unsat))
            c = e == val
            self.pc.append(c)
            self.solver.add(c)
            return v

    def commit_real(self, e):
        """Committing concretisation of a real term: path becomes incomplete."""
        self.n_realise += 1
        e = z3.simplify(e)
        if z3.is_rational_value(e):
            return fractions.Fraction(e.numerator_as_long(), e.denominator_as_long())
        val = None
        if self.strategy:
            # boundary-seeking concretisation (a concolic heuristic, never a for-all claim): code that converts a symbolic real to a machine float
            # usually does so to apply a tolerance / magnitude test the solver can no longer see, so the re-runs prefer values at the extremes
            absE = z3.If(e >= 0, e, -e)
            prefs = {1: [z3.And(absE > 0, absE <= z3.RealVal("1/1000000000")), z3.And(absE > 0, absE <= z3.RealVal("1/1000000")), e == 0],
                     2: [absE >= z3.RealVal(10 ** 9), absE >= z3.RealVal(10 ** 6)],
                     3: [z3.And(absE > z3.RealVal("999999/1000000"), absE < 1), z3.And(absE > 1, absE < z3.RealVal("1000001/1000000"))]}[self.strategy]
            for pref in prefs:
                self.solver.push()
                self.solver.add(pref)
                r = self._check()
                if r == z3.sat:
                    v = self._model().eval(e, model_completion=True)
                    self.solver.pop()
                    if z3.is_rational_value(v):
                        val = v
                        self.model = None
                        break
                else:
                    self.solver.pop()
        if val is None:
            if self.model is None:
                r = self._check()
                if r != z3.sat:
                    raise Abort("infeasible" if r == z3.unsat else "unknown", "commit_real")
                self.model = self._model()
            val = self.model.eval(e, model_completion=True)
        if not z3.is_rational_value(val):
            raise Abort("unknown", f"irrational realisation {val}")
        self.incomplete = True
        self.pc.append(e == val)
        self.solver.add(e == val)
        return fractions.Fraction(val.numerator_as_long(), val.denominator_as_long())


def cur():
    c = Ctx.cur
    if c is None:
        raise RuntimeError("symbolic operation outside an exploration")
    return c


# ---------------------------------------------------------------------------------------
# lifting of Python values to z3
# ---------------------------------------------------------------------------------------
def _is_nonfinite(x):
    return isinstance(x, float) and not math.isfinite(x)


def frac_of_float(x):
    return fractions.Fraction(x)  # exact binary value


def lift(x):
    """Python/numpy/proxy value -> z3 arithmetic term, or None."""
    if isinstance(x, SNum):
        return x.e
    if isinstance(x, SBool):
        return z3.If(x.e, z3.IntVal(1), z3.IntVal(0))
    if isinstance(x, bool):
        return z3.IntVal(int(x))
    if isinstance(x, int):
        return z3.IntVal(x)
    if isinstance(x, fractions.Fraction):
        return z3.RealVal(str(x))
    if isinstance(x, float):
        if not math.isfinite(x):
            return None
        if x.is_integer():
            return z3.RealVal(int(x))
        f = fractions.Fraction(x)
        # documented cut ("floats treated as the rationals they were computed from"): a concrete float that is
        # within 1e-13 (relative) of a rational with denominator <= 10^6 is lifted as that rational, so that
        # concrete sub-computations done by the real code in float64 (1/3, 0.1, ...) stay consistent in exact arithmetic
        g = f.limit_denominator(10 ** 6)
        if abs(g - f) <= fractions.Fraction(1, 10 ** 13) * max(1, abs(f)):  # absolute below 1: float noise such as 5.5e-17 IS zero here;
            # machine constants that must keep their value (eps, tiny) have to be handed over as proxy constants by the stub that supplies them
            f = g
        return z3.RealVal(str(f))
    try:
        import numpy as np

        if isinstance(x, np.generic):
            return lift(x.item())
    except ImportError:
        pass
    return None


def _coerce(a, b):
    """Bring two z3 arithmetic terms to a common sort."""
    sa, sb = a.sort(), b.sort()
    if sa == sb:
        return a, b
    if sa == z3.IntSort():
        a = z3.ToReal(a)
    if sb == z3.IntSort():
        b = z3.ToReal(b)
    return a, b


def _wrap(e):
    return SInt(e) if e.sort() == z3.IntSort() else SReal(e)


def _num(e):
    """constant folding for the trivial cases, keeps terms small"""
    return _wrap(e)


class SBool:
    __slots__ = ("e",)

    def __init__(self, e):
        self.e = e

    def __bool__(self):
        return cur().decide(self.e)

    def __and__(self, o):
        return SBool(z3.And(self.e, _b(o)))

    __rand__ = __and__

    def __or__(self, o):
        return SBool(z3.Or(self.e, _b(o)))

    __ror__ = __or__

    def __invert__(self):
        return SBool(z3.Not(self.e))

    def __xor__(self, o):
        return SBool(z3.Xor(self.e, _b(o)))

    __rxor__ = __xor__

    def _asnum(self):
        return SInt(z3.If(self.e, z3.IntVal(1), z3.IntVal(0)))

    def __mul__(self, o):
        l = lift(o)
        if l is None:
            return NotImplemented
        zero = z3.IntVal(0) if l.sort() == z3.IntSort() else z3.RealVal(0)
        return _wrap(z3.If(self.e, l, zero))

    __rmul__ = __mul__

    def __add__(self, o):
        return self._asnum() + o

    __radd__ = __add__

    def __sub__(self, o):
        return self._asnum() - o

    def __rsub__(self, o):
        return o - self._asnum()

    def __eq__(self, o):
        if isinstance(o, (SBool, bool)):
            return SBool(self.e == _b(o))
        return self._asnum() == o

    def __ne__(self, o):
        if isinstance(o, (SBool, bool)):
            return SBool(self.e != _b(o))
        return self._asnum() != o

    def __hash__(self):
        return id(self)

    def __repr__(self):
        return f"SBool({self.e})"


def _b(o):
    if isinstance(o, SBool):
        return o.e
    if isinstance(o, SNum):
        return o.e != 0
    return z3.BoolVal(bool(o))


class SNum:
    __slots__ = ("e",)
    python_division = False  # harness may switch to ZeroDivisionError semantics

    def __init__(self, e):
        self.e = e

    # -- arithmetic ---------------------------------------------------------------
    def _bin(self, o, f, nf):
        if _is_nonfinite(o):
            return nf(self, o)
        l = lift(o)
        if l is None:
            return NotImplemented
        a, b = _coerce(self.e, l)
        return _wrap(f(a, b))

    def _rbin(self, o, f, nf):
        if _is_nonfinite(o):
            return nf(o, self)
        l = lift(o)
        if l is None:
            return NotImplemented
        a, b = _coerce(l, self.e)
        return _wrap(f(a, b))

    def __add__(self, o):
        return self._bin(o, lambda a, b: a + b, lambda s, x: x)

    def __radd__(self, o):
        return self._rbin(o, lambda a, b: a + b, lambda x, s: x)

    def __sub__(self, o):
        return self._bin(o, lambda a, b: a - b, lambda s, x: -x)

    def __rsub__(self, o):
        return self._rbin(o, lambda a, b: a - b, lambda x, s: x)

    def __mul__(self, o):
        if isinstance(o, SBool):
            return o.__mul__(self)
        return self._bin(o, lambda a, b: a * b, _mul_nonfinite)

    def __rmul__(self, o):
        if isinstance(o, SBool):
            return o.__mul__(self)
        return self._rbin(o, lambda a, b: a * b, lambda x, s: _mul_nonfinite(s, x))

    def __truediv__(self, o):
        if _is_nonfinite(o):
            return math.nan if o != o else 0.0
        l = lift(o)
        if l is None:
            return NotImplemented
        return _div(self.e, l)

    def __rtruediv__(self, o):
        if _is_nonfinite(o):
            if o != o:
                return math.nan
            c = cur()
            if c.decide(self.e >= 0):  # x/0 = inf with the sign of x (IEEE, +0)
                return o
            return -o
        l = lift(o)
        if l is None:
            return NotImplemented
        return _div(l, self.e)

    def __floordiv__(self, o):
        l = lift(o)
        if l is None:
            return NotImplemented
        if self.e.sort() == z3.IntSort() and l.sort() == z3.IntSort():
            if cur().decide(l == 0):
                raise ZeroDivisionError("integer division by zero")
            # python floor division; z3 div is euclidean: equal for positive divisor
            if cur().decide(l > 0):
                return SInt(self.e / l)
            raise Abort("engine", "floordiv by negative symbolic")
        q = _div(self.e, l)
        return q.__floor__() if isinstance(q, SNum) else q

    def __mod__(self, o):
        l = lift(o)
        if l is None:
            return NotImplemented
        if self.e.sort() == z3.IntSort() and l.sort() == z3.IntSort():
            if cur().decide(l == 0):
                raise ZeroDivisionError("integer modulo by zero")
            if cur().decide(l > 0):
                return SInt(self.e % l)
            raise Abort("engine", "mod by negative symbolic")
        raise Abort("engine", "real mod")

    def __pow__(self, o):
        if isinstance(o, (int,)) and not isinstance(o, bool) and 0 <= o <= 8:
            r = None
            for _ in range(o):
                r = self.e if r is None else r * self.e
            if r is None:
                return _wrap(z3.IntVal(1) if self.e.sort() == z3.IntSort() else z3.RealVal(1))
            return _wrap(r)
        if isinstance(o, float) and o.is_integer() and 0 <= o <= 8:
            return (self + 0.0).__pow__(int(o))
        if o == 0.5:
            return self.sqrt()
        raise Abort("engine", f"pow {o!r}")

    def __neg__(self):
        return _wrap(-self.e)

    def __pos__(self):
        return self

    def __abs__(self):
        return _wrap(z3.If(self.e >= 0, self.e, -self.e))

    def sqrt(self):
        c = cur()
        s = c.fresh("sqrt")
        x = self.e if self.e.sort() == z3.RealSort() else z3.ToReal(self.e)
        if c.decide(x < 0):
            return math.nan
        c.assume(z3.And(s >= 0, s * s == x))
        return SReal(s)

    def conjugate(self):
        return self

    @property
    def real(self):
        return self

    @property
    def imag(self):
        return 0

    # numpy calls these on object arrays
    def round(self, ndigits=0):
        return self  # documented cut: rounding is the identity on exact reals

    def __round__(self, ndigits=None):
        if ndigits is None:
            raise Abort("engine", "round to int")
        return self

    def rint(self):
        raise Abort("engine", "rint")

    # -- comparisons --------------------------------------------------------------
    def _cmp(self, o, f, nf):
        if _is_nonfinite(o):
            return nf(o)
        if isinstance(o, SBool):
            o = o._asnum()
        l = lift(o)
        if l is None:
            return NotImplemented
        a, b = _coerce(self.e, l)
        return SBool(f(a, b))

    def __lt__(self, o):
        return self._cmp(o, lambda a, b: a < b, lambda x: x > 0)

    def __le__(self, o):
        return self._cmp(o, lambda a, b: a <= b, lambda x: x > 0)

    def __gt__(self, o):
        return self._cmp(o, lambda a, b: a > b, lambda x: x < 0)

    def __ge__(self, o):
        return self._cmp(o, lambda a, b: a >= b, lambda x: x < 0)

    def __eq__(self, o):
        if _is_nonfinite(o):
            return False
        if isinstance(o, SBool):
            o = o._asnum()
        l = lift(o)
        if l is None:
            return False
        a, b = _coerce(self.e, l)
        return SBool(a == b)

    def __ne__(self, o):
        if _is_nonfinite(o):
            return True
        if isinstance(o, SBool):
            o = o._asnum()
        l = lift(o)
        if l is None:
            return True
        a, b = _coerce(self.e, l)
        return SBool(a != b)

    def __bool__(self):
        return cur().decide(self.e != 0)

    def __hash__(self):
        return id(self)

    def __repr__(self):
        return f"S({self.e})"

    def __float__(self):
        e = self.e if self.e.sort() == z3.RealSort() else z3.ToReal(self.e)
        return float(cur().commit_real(e))

    def __int__(self):
        raise Abort("engine", f"int() of real proxy {self.e}")

    def __ceil__(self):
        c = cur()
        if self.e.sort() == z3.IntSort():
            return self
        k = c.fresh("ceil", "int")
        c.assume(z3.And(z3.ToReal(k) >= self.e, z3.ToReal(k) - 1 < self.e))
        return SInt(k)

    def __floor__(self):
        c = cur()
        if self.e.sort() == z3.IntSort():
            return self
        k = c.fresh("floor", "int")
        c.assume(z3.And(z3.ToReal(k) <= self.e, z3.ToReal(k) + 1 > self.e))
        return SInt(k)

    def __copy__(self):
        return self

    def __deepcopy__(self, memo):
        return self

    def __reduce__(self):
        return (_unpickle_num, (self.e.serialize(),))


def _unpickle_num(s):
    return _wrap(z3.deserialize(s))


def _mul_nonfinite(s, x):
    if x != x:
        return math.nan
    c = cur()
    if c.decide(s.e == 0):
        return math.nan
    if c.decide(s.e > 0):
        return x
    return -x


def _div(a, b):
    """a / b with IEEE semantics on the zero branch (or ZeroDivisionError in python mode)."""
    c = cur()
    a, b = _coerce(a, b)
    if a.sort() == z3.IntSort():
        a, b = z3.ToReal(a), z3.ToReal(b)
    if c.decide(b == 0):
        if SNum.python_division:
            raise ZeroDivisionError("division by zero")
        import numpy as np  # numpy float scalars: IEEE semantics (no ZeroDivisionError) in later concrete arithmetic

        if c.decide(a == 0):
            return np.float64(math.nan)
        if c.decide(a > 0):
            return np.float64(math.inf)
        return np.float64(-math.inf)
    return SReal(a / b)


class SReal(SNum):
    __slots__ = ()


class SInt(SNum):
    __slots__ = ()

    def __index__(self):
        return cur().concretise(self.e)

    def __int__(self):
        return cur().concretise(self.e)

    def __float__(self):
        return float(cur().concretise(self.e))

    def __hash__(self):
        return hash(cur().concretise(self.e))


numbers.Real.register(SReal)
numbers.Integral.register(SInt)


# ---------------------------------------------------------------------------------------
# constructors
# ---------------------------------------------------------------------------------------
def real(name, lo=None, hi=None, lo_strict=False, hi_strict=False):
    c = cur()
    v = z3.Real(name)
    c.inputs[name] = v
    if lo is not None:
        c.assume(v > lo if lo_strict else v >= lo)
    if hi is not None:
        c.assume(v < hi if hi_strict else v <= hi)
    return SReal(v)


def integer(name, lo=None, hi=None):
    c = cur()
    v = z3.Int(name)
    c.inputs[name] = v
    if lo is not None:
        c.assume(v >= lo)
    if hi is not None:
        c.assume(v <= hi)
    return SInt(v)


def boolean(name):
    c = cur()
    v = z3.Bool(name)
    c.inputs[name] = v
    return SBool(v)


def const(x):
    return _wrap(lift(x))


def term(x):
    """z3 term of a proxy / python number (Real-sorted)."""
    if isinstance(x, SBool):
        return z3.If(x.e, z3.RealVal(1), z3.RealVal(0))
    l = lift(x)
    if l is None:
        raise ValueError(f"cannot lift {x!r}")
    if l.sort() == z3.IntSort():
        l = z3.ToReal(l)
    return l


def is_sym(x):
    return isinstance(x, (SNum, SBool))


def is_nan(x):
    return isinstance(x, float) and x != x


def zsum(terms):
    terms = list(terms)
    if not terms:
        return z3.RealVal(0)
    return z3.Sum(terms) if len(terms) > 1 else terms[0]


# ---------------------------------------------------------------------------------------
# pandas / numpy guards (behave differently only when they see a proxy)
# ---------------------------------------------------------------------------------------
_patched = False


def patch_environment():
    global _patched
    if _patched:
        return
    _patched = True
    import pandas.core.nanops as nanops

    orig = nanops._ensure_numeric

    def _ensure_numeric(x):
        if isinstance(x, (SNum, SBool)):
            return x
        try:
            import numpy as np

            if isinstance(x, np.ndarray) and x.dtype == object and any(isinstance(v, SNum) for v in x.ravel()):
                return x
        except Exception:
            pass
        return orig(x)

    nanops._ensure_numeric = _ensure_numeric


# ---------------------------------------------------------------------------------------
# exploration
# ---------------------------------------------------------------------------------------
class PathResult:
    __slots__ = ("status", "out", "ctx", "error")

    def __init__(self, status, out, ctx, error=None):
        self.status = status  # "ok" | "abort:<kind>" | "exception"
        self.out = out
        self.ctx = ctx
        self.error = error


def explore(fn, assumptions=(), max_paths=100000, deadline=None, on_path=None):
    """Run fn() on every feasible decision path.  on_path(PathResult) is called after each path
    while the path's context (solver with the path condition) is still alive.
    Returns dict(paths=, unexplored=, aborted={kind: n})."""
    stats = {"paths": 0, "unexplored": 0, "aborted": {}, "incomplete": 0, "queries": 0, "solver_s": 0.0,
             "realisations": 0, "exceptions": 0}
    # strategy 0 = ordinary exploration.  If (and only if) the code under test realised a symbolic real on some path (float(x), astype(float): the
    # path is then *incomplete*), the exploration is repeated with boundary-seeking concretisation preferences 1..3 (see Ctx.commit_real).
    for strategy in (0, 1, 2, 3):
        if strategy and not stats["incomplete"]:
            break
        _explore_once(fn, assumptions, max_paths, deadline, on_path, stats, strategy)
    return stats


def _explore_once(fn, assumptions, max_paths, deadline, on_path, stats, strategy):
    work = [[]]
    budget = stats["paths"] + max_paths
    while work:
        if stats["paths"] >= budget or (deadline is not None and time.time() > deadline):
            stats["unexplored"] += len(work)
            break
        script = work.pop()
        ctx = Ctx(script, assumptions)
        ctx.strategy = strategy
        Ctx.cur = ctx
        status, out, err = "ok", None, None
        try:
            try:
                out = fn()
            except Abort as a:
                status, err = "abort:" + a.kind, a.msg
                stats["aborted"][a.kind] = stats["aborted"].get(a.kind, 0) + 1
            except RecursionError as e:  # pragma: no cover
                status, err = "exception", repr(e)
            pr = PathResult(status, out, ctx, err)
            stats["paths"] += 1
            if ctx.incomplete:
                stats["incomplete"] += 1
            for i in range(len(script), len(ctx.trace)):
                v, forced = ctx.trace[i]
                if not forced:
                    work.append([t[0] for t in ctx.trace[:i]] + [(not v) if isinstance(v, bool) else ("n", v[1])])
            if on_path is not None:
                on_path(pr)
        finally:
            Ctx.cur = None
        stats["queries"] += ctx.nq
        stats["solver_s"] += ctx.solver_s
        stats["realisations"] += ctx.n_realise
    return stats


# ---------------------------------------------------------------------------------------
# function coverage (which fairlearn functions were entered under symbolic execution)
# ---------------------------------------------------------------------------------------
class FuncRecorder:
    def __init__(self, root="/repo/fairlearn"):
        self.root = root
        self.seen = set()

    def _prof(self, frame, event, arg):
        if event == "call":
            co = frame.f_code
            fn = co.co_filename
            if fn.startswith(self.root):
                self.seen.add(fn[len(self.root) - len("fairlearn"):] + ":" + getattr(co, "co_qualname", co.co_name))

    def __enter__(self):
        sys.setprofile(self._prof)
        return self

    def __exit__(self, *a):
        sys.setprofile(None)


class SOpaque(SReal):
    """A real-valued result whose ordering is deliberately undefined (comparisons raise TypeError, an ordinary
    Exception): used for uninterpreted metric values so that code which merely *transports* the value works,
    while eager min/max aggregations fail fast instead of forking over all orderings."""

    __slots__ = ()

    def _no(self, *a):
        raise TypeError("ordering of an uninterpreted metric value is undefined")

    __lt__ = __le__ = __gt__ = __ge__ = _no

    def __bool__(self):
        raise TypeError("truth value of an uninterpreted metric value is undefined")

    def _bin(self, o, f, nf):
        r = SNum._bin(self, o, f, nf)
        return SOpaque(r.e) if isinstance(r, SNum) else r

    def _rbin(self, o, f, nf):
        r = SNum._rbin(self, o, f, nf)
        return SOpaque(r.e) if isinstance(r, SNum) else r

    def __abs__(self):
        return SOpaque(z3.If(self.e >= 0, self.e, -self.e))

    def __neg__(self):
        return SOpaque(-self.e)

    def __truediv__(self, o):
        raise TypeError("division of an uninterpreted metric value")

    __rtruediv__ = __truediv__

    def __eq__(self, o):
        return self is o

    def __ne__(self, o):
        return self is not o

    __hash__ = SNum.__hash__


numbers.Real.register(SOpaque)


def rgs(n, maxlev):
    """restricted-growth strings of length n with at most maxlev distinct levels (canonical group assignments)"""
    def rec(prefix, mx):
        if len(prefix) == n:
            yield tuple(prefix)
            return
        for v in range(min(mx + 1, maxlev - 1) + 1):
            yield from rec(prefix + [v], max(mx, v))
    if n == 0:
        yield ()
        return
    yield from rec([0], 0)
