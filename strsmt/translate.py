"""Engine B: source-AST -> bounded SMT encoding of the string kernel `_join_names` nested in
fairlearn.utils._input_validation._merge_columns (C13).

Accepted shape (anything else -> Unsupported, the check then reports inconclusive, never success):

    def _join_names(names):
        return <SEP>.join([ name.replace(<c1>, <s1>).replace(<c2>, <s2>)... for name in names ])

with <SEP>, <ci>, <si> string constants (literals, module globals, f-strings of those) and every <ci> one character.
Sequential single-character replaces compose to a character->string homomorphism `img`, which is computed concretely;
the encoding then is: output = concat_j ( concat_i img(a_j[i]) ) with the separator between columns."""
import ast
import inspect
import textwrap

import z3


class Unsupported(Exception):
    pass


def _const(node, env):
    if isinstance(node, ast.Constant) and isinstance(node.value, str):
        return node.value
    if isinstance(node, ast.Name):
        if node.id in env and isinstance(env[node.id], str):
            return env[node.id]
        raise Unsupported(f"name {node.id} is not a string constant")
    if isinstance(node, ast.JoinedStr):
        out = ""
        for v in node.values:
            if isinstance(v, ast.Constant):
                out += v.value
            elif isinstance(v, ast.FormattedValue) and v.conversion == -1 and v.format_spec is None:
                out += _const(v.value, env)
            else:
                raise Unsupported("f-string part")
        return out
    raise Unsupported(f"not a string constant: {ast.dump(node)[:80]}")


def extract(func=None):
    """-> dict(sep=str, replaces=[(old, new), ...] in application order, source=str)"""
    if func is None:
        from fairlearn.utils import _input_validation as iv

        func = iv._merge_columns
    src = textwrap.dedent(inspect.getsource(func))
    env = dict(getattr(func, "__globals__", {}))
    tree = ast.parse(src)
    target = None
    for node in ast.walk(tree):
        if isinstance(node, ast.FunctionDef) and node.name == "_join_names":
            target = node
    if target is None:
        raise Unsupported("no nested _join_names function")
    # the enclosing function must apply the kernel uniformly to every row of `<arg>.astype(str)` and do nothing else:
    #   [docstring] [isinstance guard that raises] def _join_names ... return np.array([_join_names(row) for row in <arg>.astype(str)])
    outer = next(n for n in tree.body if isinstance(n, ast.FunctionDef))
    arg0 = outer.args.args[0].arg
    rest = [b for b in outer.body if not (isinstance(b, ast.Expr) and isinstance(b.value, ast.Constant))]
    kinds = []
    for b in rest:
        if isinstance(b, ast.If) and all(isinstance(x, ast.Raise) for x in b.body) and not b.orelse:
            kinds.append("guard")
        elif b is target:
            kinds.append("kernel")
        elif isinstance(b, ast.Return):
            kinds.append("return")
        else:
            kinds.append("other")
    if kinds.count("kernel") != 1 or kinds[-1] != "return" or "other" in kinds or kinds.count("return") != 1:
        raise Unsupported(f"enclosing function does more than guard / kernel / return: {kinds}")
    ret = rest[-1].value
    ok = (isinstance(ret, ast.Call) and isinstance(ret.func, ast.Attribute) and ret.func.attr == "array" and len(ret.args) == 1
          and isinstance(ret.args[0], (ast.ListComp, ast.GeneratorExp)) and len(ret.args[0].generators) == 1)
    if ok:
        comp0 = ret.args[0]
        g0 = comp0.generators[0]
        ok = (not g0.ifs and isinstance(comp0.elt, ast.Call) and isinstance(comp0.elt.func, ast.Name) and comp0.elt.func.id == "_join_names"
              and len(comp0.elt.args) == 1 and isinstance(comp0.elt.args[0], ast.Name) and isinstance(g0.target, ast.Name)
              and comp0.elt.args[0].id == g0.target.id and isinstance(g0.iter, ast.Call) and isinstance(g0.iter.func, ast.Attribute)
              and g0.iter.func.attr == "astype" and isinstance(g0.iter.func.value, ast.Name) and g0.iter.func.value.id == arg0)
    if not ok:
        raise Unsupported("enclosing function does not return np.array([_join_names(row) for row in <arg>.astype(str)])")
    body = [b for b in target.body if not (isinstance(b, ast.Expr) and isinstance(b.value, ast.Constant))]
    if len(body) != 1 or not isinstance(body[0], ast.Return):
        raise Unsupported("_join_names is not a single return")
    call = body[0].value
    if not (isinstance(call, ast.Call) and isinstance(call.func, ast.Attribute) and call.func.attr == "join" and len(call.args) == 1 and not call.keywords):
        raise Unsupported("not <sep>.join(...)")
    sep = _const(call.func.value, env)
    comp = call.args[0]
    if not isinstance(comp, (ast.ListComp, ast.GeneratorExp)) or len(comp.generators) != 1:
        raise Unsupported("join argument is not a single comprehension")
    gen = comp.generators[0]
    if gen.ifs or not isinstance(gen.target, ast.Name) or not isinstance(gen.iter, ast.Name) or gen.iter.id != target.args.args[0].arg:
        raise Unsupported("comprehension shape")
    var = gen.target.id
    chain = []
    node = comp.elt
    while True:
        if isinstance(node, ast.Name) and node.id == var:
            break
        if isinstance(node, ast.Call) and isinstance(node.func, ast.Attribute) and node.func.attr == "replace" and len(node.args) == 2 and not node.keywords:
            chain.append((_const(node.args[0], env), _const(node.args[1], env)))
            node = node.func.value
            continue
        raise Unsupported(f"element is not a chain of .replace calls on the loop variable: {ast.dump(node)[:100]}")
    chain.reverse()
    for old, new in chain:
        if len(old) != 1:
            raise Unsupported(f"replace pattern {old!r} is not a single character")
    return {"sep": sep, "replaces": chain, "source": src}


def image_table(k):
    """composition of the sequential single-char replaces: special char -> image string"""
    specials = sorted({old for old, _ in k["replaces"]} | set(ch for _, new in k["replaces"] for ch in new) | set(k["sep"]))
    table = {}
    for c in specials:
        s = c
        for old, new in k["replaces"]:
            s = s.replace(old, new)
        if s != c:
            table[c] = s
    return table


def py_eval(k, names):
    """python evaluator of the encoding (for validation against the real function)"""
    table = image_table(k)
    return k["sep"].join("".join(table.get(ch, ch) for ch in n) for n in names)


class Encoder:
    def __init__(self, k, ncols, L, tag):
        self.k, self.ncols, self.L, self.tag = k, ncols, L, tag
        self.table = image_table(k)
        self.lens = [z3.Int(f"{tag}_len{j}") for j in range(ncols)]
        self.chars = [[z3.Int(f"{tag}_c{j}_{i}") for i in range(L)] for j in range(ncols)]
        self.out = z3.Function(f"{tag}_out", z3.IntSort(), z3.IntSort())
        self.cons = []
        self.maxpiece = max([len(v) for v in self.table.values()] + [1])
        self._build()

    def _plen(self, c):
        e = z3.IntVal(1)
        for ch, img in self.table.items():
            e = z3.If(c == ord(ch), z3.IntVal(len(img)), e)
        return e

    def _build(self):
        k, L = self.k, self.L
        off = z3.IntVal(0)
        for j in range(self.ncols):
            self.cons.append(z3.And(self.lens[j] >= 0, self.lens[j] <= L))
            if j > 0:
                for t, ch in enumerate(k["sep"]):
                    self.cons.append(self.out(off + t) == ord(ch))
                off = off + len(k["sep"])
            for i in range(L):
                c = self.chars[j][i]
                self.cons.append(z3.And(c >= 1, c <= 0x10FFFF))
                active = i < self.lens[j]
                # write the image of c at off.. (identity for ordinary characters)
                writes = []
                default = self.out(off) == c
                branch = default
                for ch, img in self.table.items():
                    w = z3.And([self.out(off + t) == ord(x) for t, x in enumerate(img)]) if img else z3.BoolVal(True)
                    branch = z3.If(c == ord(ch), w, branch)
                self.cons.append(z3.Implies(active, branch))
                off = off + z3.If(active, self._plen(c), z3.IntVal(0))
        self.total = off
        self.maxlen = self.ncols * L * self.maxpiece + (self.ncols - 1) * len(k["sep"])


def injectivity_query(k, ncols, L):
    """sat <=> two different rows of `ncols` strings (length <= L) have the same merged name"""
    A, B = Encoder(k, ncols, L, "a"), Encoder(k, ncols, L, "b")
    s = z3.Solver()
    s.add(*A.cons)
    s.add(*B.cons)
    s.add(A.total == B.total)
    for p in range(max(A.maxlen, B.maxlen)):
        s.add(z3.Implies(p < A.total, A.out(p) == B.out(p)))
    diff = []
    for j in range(ncols):
        diff.append(A.lens[j] != B.lens[j])
        for i in range(L):
            diff.append(z3.And(i < A.lens[j], A.chars[j][i] != B.chars[j][i]))
    s.add(z3.Or(diff))
    return s, A, B


def model_rows(m, E):
    rows = []
    for j in range(E.ncols):
        ln = m.eval(E.lens[j], model_completion=True).as_long()
        rows.append("".join(chr(m.eval(E.chars[j][i], model_completion=True).as_long()) for i in range(ln)))
    return rows


def concrete_check(k, names):
    """solver-level validation: with the characters fixed, the encoding's output must be exactly py_eval's string"""
    L = max([len(n) for n in names] + [1])
    E = Encoder(k, len(names), L, "v")
    s = z3.Solver()
    s.add(*E.cons)
    for j, nme in enumerate(names):
        s.add(E.lens[j] == len(nme))
        for i, ch in enumerate(nme):
            s.add(E.chars[j][i] == ord(ch))
    if s.check() != z3.sat:
        return False
    m = s.model()
    tot = m.eval(E.total, model_completion=True).as_long()
    got = "".join(chr(m.eval(E.out(p), model_completion=True).as_long()) for p in range(tot))
    return got == py_eval(k, names)
