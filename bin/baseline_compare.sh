#!/bin/sh
# Runs the pinned suite (guard off) and compares with BASELINE.json stable_pass. Scratch output under /scratch.
mkdir -p /scratch/baseline
export OMP_NUM_THREADS=1 OPENBLAS_NUM_THREADS=1 MKL_NUM_THREADS=1 OMP_WAIT_POLICY=passive GOMP_SPINCOUNT=0
cd /repo && env -u FAIRLEARN_VERIF /venv/bin/python -m pytest -ra -q -p no:cacheprovider --timeout=900 --continue-on-collection-errors --junitxml=/scratch/baseline/run.xml > /scratch/baseline/run.log 2>&1
python3 - <<'PY'
import json, xml.etree.ElementTree as ET
base=set(json.load(open('/root/.vp/BASELINE.json'))['stable_pass'])
passed=set()
for tc in ET.parse('/scratch/baseline/run.xml').getroot().iter('testcase'):
    if not any(ch.tag in ('failure','error','skipped') for ch in tc):
        passed.add(tc.get('classname')+'::'+tc.get('name'))
missing=sorted(base-passed)
print('baseline', len(base), 'passed now', len(passed), 'missing from baseline', len(missing))
for m in missing[:20]: print('  MISSING', m)
PY
