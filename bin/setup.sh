#!/bin/sh
# Offline set-up of the overlay venv used by every check (idempotent). The venv lives next to this tree (<root>/.venv).
set -e
cd "$(dirname "$0")/.."
V="$(pwd)/.venv"
if [ ! -x "$V/bin/python" ] || ! "$V/bin/python" -c "import z3" 2>/dev/null; then
  rm -rf "$V"
  /venv/bin/python -m venv "$V"
  SP=$("$V/bin/python" -c "import sysconfig; print(sysconfig.get_paths()['purelib'])")
  printf "import site; site.addsitedir('/venv/lib/python3.12/site-packages')\n" > "$SP/verif_overlay.pth"
  PIP_NO_INDEX=1 "$V/bin/pip" install -q --no-index --find-links /opt/veriftools/wheels z3-solver cvc5 jsonschema >/dev/null 2>&1 || \
  PIP_NO_INDEX=1 "$V/bin/pip" install -q --no-index --find-links /opt/veriftools/wheels z3-solver
fi
"$V/bin/python" -c "import z3, numpy, pandas, sklearn, fairlearn; print('setup ok: z3', z3.get_version_string(), 'fairlearn from', fairlearn.__file__)"
