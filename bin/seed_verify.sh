#!/bin/sh
# usage: bin/seed_verify.sh <mutant name> <src dir with patch.diff+demo.py> <test dir(s)|FULL>
# Confirms in a scratch worktree: demo exits 1 with the patch, 0 without; the given tests pass with the patch.
NAME="$1"; SRC="$2"; TESTS="$3"
WT=/tmp/sv_$NAME
export OMP_NUM_THREADS=1 OPENBLAS_NUM_THREADS=1 MKL_NUM_THREADS=1 OMP_WAIT_POLICY=passive GOMP_SPINCOUNT=0
git -C /repo worktree remove --force $WT 2>/dev/null
git -C /repo worktree add -q --detach $WT HEAD || exit 9
cd $WT
sed "s#/tmp/wt_[A-Za-z0-9_]*#$WT#g; s#/tmp/out_[A-Za-z0-9_]*#$SRC#g" $SRC/demo.py > /tmp/sv_demo_$NAME.py
PYTHONPATH=$WT /venv/bin/python /tmp/sv_demo_$NAME.py > /tmp/sv_$NAME.unchanged.log 2>&1; R0=$?
git apply $SRC/patch.diff || { echo "patch does not apply"; exit 9; }
PYTHONPATH=$WT /venv/bin/python /tmp/sv_demo_$NAME.py > /tmp/sv_$NAME.changed.log 2>&1; R1=$?
echo "demo: unchanged exit=$R0 changed exit=$R1"
if [ "$TESTS" = "FULL" ]; then TESTS="test/unit"; fi
PYTHONPATH=$WT /venv/bin/python -m pytest -q -p no:cacheprovider --timeout=900 --continue-on-collection-errors $TESTS --junitxml=/tmp/sv_$NAME.xml > /tmp/sv_$NAME.tests.log 2>&1
tail -1 /tmp/sv_$NAME.tests.log
python3 - "$NAME" <<'PY'
import json, sys, xml.etree.ElementTree as ET
name=sys.argv[1]
base=set(json.load(open('/root/.vp/BASELINE.json'))['stable_pass'])
passed=set(); seen=set()
for tc in ET.parse(f'/tmp/sv_{name}.xml').getroot().iter('testcase'):
    k=tc.get('classname')+'::'+tc.get('name'); seen.add(k)
    if not any(ch.tag in ('failure','error','skipped') for ch in tc): passed.add(k)
broken=sorted((base & seen) - passed)
print(f"baseline tests run {len(base & seen)}, still passing {len((base & seen) & passed)}, broken {len(broken)}", broken[:5])
PY
cd /; git -C /repo worktree remove --force $WT
