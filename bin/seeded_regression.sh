#!/bin/sh
# Mutant regression: every kept seeded change is applied in its own scratch worktree (never in /repo) and the quick check of the
# property it breaks (meta.json "check", default = its property) must exit 1 with a VIOLATION line.  Results: /scratch/seedreg/<name>.txt
# usage: bin/seeded_regression.sh [name-regex]
mkdir -p /scratch/seedreg
cd /verif/seeded
ls -d */ | tr -d / | grep -v "^_" | grep -E "${1:-.}" | xargs -P 3 -I{} sh -c '
  N={}; WT=/tmp/sr_$N; EV=/scratch/seedreg/ev_$N
  CHK=$(python3 -c "import json;m=json.load(open(\"/verif/seeded/$N/meta.json\"));print(m.get(\"check\",m[\"property\"]))")
  git -C /repo worktree remove --force $WT 2>/dev/null; git -C /repo worktree add -q --detach $WT HEAD || exit 9
  if ! git -C $WT apply /verif/seeded/$N/patch.diff; then echo "$N PATCH-DOES-NOT-APPLY" > /scratch/seedreg/$N.txt; git -C /repo worktree remove --force $WT; exit 0; fi
  mkdir -p $EV
  VERIF_REPO=$WT VERIF_EVID=$EV VERIF_PROCS=6 /verif/bin/check $CHK --tier quick > /scratch/seedreg/$N.log 2>&1; RC=$?
  echo "$N check=$CHK exit=$RC violations=$(grep -c "^VIOLATION" /scratch/seedreg/$N.log) $(grep "^HARNESS-ERROR" /scratch/seedreg/$N.log | head -1)" > /scratch/seedreg/$N.txt
  git -C /repo worktree remove --force $WT; rm -rf $EV'
cat /scratch/seedreg/*.txt | sort
