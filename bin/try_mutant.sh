#!/bin/sh
# usage: bin/try_mutant.sh <patch.diff> <check id> [extra args]
# Applies the patch in a scratch worktree of /repo (never in /repo itself), runs the quick check of <check id> against it with a scratch
# evidence directory, removes the worktree.  Safe to run while other checks read /repo.  Log: /scratch/mut_<id>.log
P="$1"; ID="$2"; shift 2
WT=/tmp/tm_$ID.$$; EV=/scratch/tm_ev_$ID.$$
git -C /repo worktree add -q --detach $WT HEAD || exit 9
git -C $WT apply "$P" || { echo "PATCH DOES NOT APPLY"; git -C /repo worktree remove --force $WT; exit 9; }
mkdir -p $EV
VERIF_REPO=$WT VERIF_EVID=$EV /verif/bin/check "$ID" --tier quick "$@" > /scratch/mut_$ID.log 2>&1; RC=$?
git -C /repo worktree remove --force $WT; rm -rf $EV
echo "exit=$RC"; grep -c "^VIOLATION" /scratch/mut_$ID.log; grep "^VIOLATION\|^HARNESS\|^\[C" /scratch/mut_$ID.log | head -5; grep -A1 "^VIOLATION" /scratch/mut_$ID.log | grep -v "^VIOLATION\|^--" | head -3
