#!/bin/sh
# usage: bin/try_mutant.sh <patch.diff> <check id> [extra args]   -- applies the patch to /repo, runs the quick check, reverts the patch
P="$1"; ID="$2"; shift 2
cd /repo || exit 9
git apply --check "$P" || { echo "PATCH DOES NOT APPLY"; exit 9; }
git apply "$P"
cd /verif && bin/check "$ID" --tier quick "$@" > /scratch/mut_$ID.log 2>&1; RC=$?
cd /repo && git apply -R "$P"
echo "exit=$RC"; grep -c "^VIOLATION" /scratch/mut_$ID.log; grep "^VIOLATION\|^HARNESS\|^\[C" /scratch/mut_$ID.log | head -5; grep -A1 "^VIOLATION" /scratch/mut_$ID.log | grep -v "^VIOLATION\|^--" | head -3
