#!/verif/.venv/bin/python
"""Regenerates /verif/MANIFEST.json from the harness modules (harness/cNN.py: PROPERTY, META, MANIFEST)."""
import importlib
import json
import os
import sys

ROOT = os.path.dirname(os.path.dirname(os.path.abspath(__file__)))
sys.path.insert(0, ROOT)
PENDING = json.load(open(os.path.join(ROOT, "not_applicable.json")))
props = [json.loads(l)["id"] for l in open(os.path.join(ROOT, "properties.jsonl"))]
checks, na = [], []
for pid in props:
    mod = pid.lower()
    if os.path.exists(os.path.join(ROOT, "harness", mod + ".py")) and pid not in PENDING:
        H = importlib.import_module(f"harness.{mod}")
        M = H.MANIFEST
        checks.append({
            "property_id": pid,
            "quick_cmd": f"bin/check {pid} --tier quick",
            "thorough_cmd": f"bin/check {pid} --tier thorough",
            "evidence_file": f"/verif/evidence/{pid}.json",
            "replay_cmd_template": f"bin/check {pid} --replay {{path}}",
            "engine": M.get("engine", "symx"),
            "level_claimed": {"category": "other", "text": M["level_text"], "design_ref": M.get("design_ref", "DESIGN.md section 6")},
            "level_note": M["level_note"],
            "technique": M.get("technique", "bounded symbolic execution of the real Python code on z3 proxy values (path forking by re-execution) + SMT discharge of per-path obligations, counter-examples replayed on the real code"),
        })
    else:
        na.append({"property_id": pid, "reason": PENDING.get(pid, "harness not built yet")})
man = {
    "version": 1,
    "setup_cmd": "sh bin/setup.sh",
    "hooks": {"guard": "FAIRLEARN_VERIF", "enable": "no source hooks: all instrumentation is assignment to module globals inside the check process (bin/check exports FAIRLEARN_VERIF=1, which nothing in /repo reads)",
              "baseline_off_cmd": "cd /repo && /venv/bin/python -m pytest -ra -q -p no:cacheprovider --timeout=900 --continue-on-collection-errors", "source_commits": [], "add_only": True},
    "engines": [
        {"name": "symx", "path": "symx/", "serves_properties": [c["property_id"] for c in checks if c["engine"] == "symx"],
         "kind_free_text": "symbolic execution of the real fairlearn code: z3 terms wrapped in proxy numbers inside object-dtype numpy/pandas containers; branches fork by decision-prefix re-execution; obligations discharged by z3 (fresh solver per obligation), counter-examples replayed on the real code in a fresh process"},
        {"name": "strsmt", "path": "strsmt/", "serves_properties": [c["property_id"] for c in checks if c["engine"] != "symx"],
         "kind_free_text": "source-AST -> bounded integer SMT encoding of the string kernel _join_names (C13)"},
    ],
    "checks": checks,
    "not_applicable": na,
    "notes": "See DESIGN.md. Exit codes: 0 held / 1 VIOLATION (replayed on the real code) / 2 harness error (never a verdict). known_findings.json lists recorded genuine defects and fixed ones.",
}
json.dump(man, open(os.path.join(ROOT, "MANIFEST.json"), "w"), indent=1)
print("checks:", [c["property_id"] for c in checks], "n/a:", [n["property_id"] for n in na])
