#!/bin/sh
# Full pinned suite against every kept seeded change that has no fullsuite.txt yet (scratch worktrees under /tmp, removed afterwards).
# Results: seeded/<name>/fullsuite.txt      usage: bin/seed_fullsuite_all.sh [parallelism]
cd /verif/seeded
for d in $(ls -d */ | tr -d / | grep -v "^_"); do [ -s $d/fullsuite.txt ] || echo $d; done | xargs -P ${1:-4} -I{} sh -c '/verif/bin/seed_verify.sh full_{} /verif/seeded/{} FULL > /verif/seeded/{}/fullsuite.txt 2>&1; rm -f /tmp/sv_full_{}.xml /tmp/sv_full_{}.tests.log /tmp/sv_full_{}.*.log /tmp/sv_demo_full_{}.py'
