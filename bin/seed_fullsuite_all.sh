#!/bin/sh
# Full pinned suite against every kept seeded change (scratch worktrees under /tmp, removed afterwards). Results: seeded/<name>/fullsuite.txt
cd /verif/seeded
ls -d */ | tr -d / | xargs -P 4 -I{} sh -c '/verif/bin/seed_verify.sh full_{} /verif/seeded/{} FULL > /verif/seeded/{}/fullsuite.txt 2>&1; rm -f /tmp/sv_full_{}.xml /tmp/sv_full_{}.tests.log'
