#!/usr/bin/env python3
"""usage: seed_keep.py <name> <property> <srcdir> <needs> <caught_by> <ran>"""
import json, os, shutil, sys
name, prop, src, needs, caught, ran = sys.argv[1:7]
d = f"/verif/seeded/{name}"
os.makedirs(d, exist_ok=True)
shutil.copy(f"{src}/patch.diff", f"{d}/patch.diff")
shutil.copy(f"{src}/demo.py", f"{d}/demo.py")
if os.path.exists(f"{src}/notes.md"):
    shutil.copy(f"{src}/notes.md", f"{d}/notes.md")
json.dump({"property": prop, "breaks": prop, "needs_to_manifest": needs, "caught_by": caught, "what_i_ran": ran,
           "origin": "independent sub-agent given only the property text and a scratch worktree"}, open(f"{d}/meta.json", "w"), indent=1)
print("kept", d)
